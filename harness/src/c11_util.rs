//! C11 helpers: history case data (plain serializable), proptest strategies, the harness's own
//! model of a context and the per-call predictions derived from the documented guards.
use crate::gen::{arb_type, pick};
use crate::hv::{bits, ALL_ST};
use ciphercore_base::custom_ops::{CustomOperation, Not, Or};
use ciphercore_base::data_types::{
    array_type, named_tuple_type, scalar_type, tuple_type, vector_type, ScalarType, Type, BIT, INT128,
    INT32, INT64, UINT64,
};
use ciphercore_base::data_values::Value;
use ciphercore_base::graphs::{GraphAnnotation, NodeAnnotation, Operation, SliceElement};
use proptest::prelude::*;
use serde::{Deserialize, Serialize};

pub const SMALL: bool = cfg!(feature = "small");

pub const NAMES: [&str; 6] = ["a", "b", "out", "x1", "key", ""];

// ---------------------------------------------------------------------------------------------
// case data

#[derive(Clone, Copy, Debug, Serialize, Deserialize, PartialEq, Eq)]
pub enum NS {
    Same,
    OtherGraph,
    OtherCtx,
}
#[derive(Clone, Copy, Debug, Serialize, Deserialize)]
pub struct NRef {
    pub s: NS,
    pub i: u16,
}
#[derive(Clone, Copy, Debug, Serialize, Deserialize, PartialEq, Eq)]
pub enum GS {
    /// a finalized graph of the same context that is older than the target graph
    Callable,
    /// any graph of the same context (incl. the target itself, younger or unfinalized ones)
    Local,
    OtherCtx,
}
#[derive(Clone, Copy, Debug, Serialize, Deserialize)]
pub struct GRef {
    pub s: GS,
    pub i: u16,
}
/// target graph selector: m<6 prefers unfinalized graphs, m==6 finalized ones, m==7 any
#[derive(Clone, Copy, Debug, Serialize, Deserialize)]
pub struct GSel {
    pub m: u8,
    pub i: u16,
}

#[derive(Clone, Copy, Debug, Serialize, Deserialize, PartialEq, Eq, Hash, PartialOrd, Ord)]
pub enum NK {
    Input,
    Zeros,
    Ones,
    Random,
    Const,
    Add,
    Sub,
    Mul,
    MixedMul,
    Dot,
    Matmul,
    Gemm,
    Nop,
    Print,
    MkTuple,
    MkNamed,
    MkVector,
    TupleGet,
    NamedGet,
    VectorGet,
    Zip,
    Repeat,
    A2V,
    V2A,
    A2B,
    B2A,
    Sum,
    CumSum,
    Permute,
    Get,
    Slice,
    Reshape,
    Stack,
    Concat,
    Trunc,
    Prf,
    PermPrf,
    RandPerm,
    InvPerm,
    Sort,
    Gather,
    Assert,
    CustomNot,
    CustomOr,
    Call,
    Iterate,
}

#[derive(Clone, Debug, Serialize, Deserialize)]
pub enum Op {
    CreateGraph { c: u8 },
    AddNode { c: u8, g: GSel, k: NK, deps: Vec<NRef>, gd: Vec<GRef>, p: [u16; 4], t: Type },
    /// n successive `input(t)` calls (each one checked like any other call)
    Inputs { c: u8, g: GSel, t: Type, n: u8 },
    NameNode { c: u8, g: GSel, n: NRef, name: u8, via: u8 },
    NameGraph { c: u8, g: GSel, name: u8, via: u8 },
    AnnotNode { c: u8, g: GSel, n: NRef, a: u8 },
    AnnotGraph { c: u8, g: GSel, a: u8 },
    SetOutput { c: u8, g: GSel, n: NRef, via_node: bool },
    Finalize { c: u8, g: GSel },
    SetMain { c: u8, g: GRef, via_graph: bool },
    FinalizeCtx { c: u8 },
    /// a complete callable graph with two inputs and output (in0, in1): create_graph, 2x input,
    /// create_tuple, set_output_node, finalize (individual calls) — usable as an Iterate body
    Body { c: u8, t1: Type, t2: Type },
    /// set outputs / finalize every graph, set main, finalize the context (individual calls)
    Seal { c: u8 },
    /// read-only calls with invalid arguments (foreign node/graph, out-of-range ids, unknown names)
    Query { c: u8, g: GSel, i: u16 },
}

#[derive(Clone, Debug, Serialize, Deserialize)]
pub struct History {
    pub two_ctx: bool,
    pub ops: Vec<Op>,
    /// selects one more failed call whose removal must not change anything (layer E)
    pub drop_sel: u16,
}

// ---------------------------------------------------------------------------------------------
// types

/// element count of a leaf, None on overflow
pub fn shape_elems(s: &[u64]) -> Option<u64> {
    let mut p: u64 = 1;
    for d in s {
        p = p.checked_mul(*d)?;
    }
    Some(p)
}

/// the harness's own reading of the documentation of `Type::is_valid` / `is_valid_shape`:
/// shapes non-empty, no zero dimension, capacity <= u64::MAX; named tuples have unique names
pub fn my_valid(t: &Type) -> bool {
    match t {
        Type::Scalar(_) => true,
        Type::Array(s, _) => !s.is_empty() && s.iter().all(|d| *d != 0) && shape_elems(s).is_some(),
        Type::Vector(_, e) => my_valid(e),
        Type::Tuple(ts) => ts.iter().all(|x| my_valid(x)),
        Type::NamedTuple(ts) => {
            let mut names: Vec<&String> = ts.iter().map(|(n, _)| n).collect();
            names.sort();
            names.dedup();
            names.len() == ts.len() && ts.iter().all(|(_, x)| my_valid(x))
        }
    }
}

/// total number of scalar elements, saturating (cost guard for the harness, not a semantic notion)
pub fn total_elems_sat(t: &Type) -> u64 {
    match t {
        Type::Scalar(_) => 1,
        Type::Array(s, _) => shape_elems(s).unwrap_or(u64::MAX),
        Type::Vector(n, e) => n.saturating_mul(total_elems_sat(e).max(1)),
        Type::Tuple(ts) => ts.iter().fold(0u64, |a, x| a.saturating_add(total_elems_sat(x))),
        Type::NamedTuple(ts) => ts.iter().fold(0u64, |a, (_, x)| a.saturating_add(total_elems_sat(x))),
    }
}

pub fn is_huge(t: &Type) -> bool {
    total_elems_sat(t) > (1 << 20)
}

pub fn is_leaf_t(t: &Type) -> bool {
    matches!(t, Type::Scalar(_) | Type::Array(_, _))
}
pub fn st_of(t: &Type) -> Option<ScalarType> {
    match t {
        Type::Scalar(st) | Type::Array(_, st) => Some(*st),
        _ => None,
    }
}
pub fn shape_of(t: &Type) -> Vec<u64> {
    match t {
        Type::Array(s, _) => s.clone(),
        _ => vec![],
    }
}
pub fn leaf(st: ScalarType, shape: &[u64]) -> Type {
    if shape.is_empty() {
        scalar_type(st)
    } else {
        array_type(shape.to_vec(), st)
    }
}

fn arb_simple_leaf() -> BoxedStrategy<Type> {
    // a tiny set, so that equal types meet often
    proptest::sample::select(vec![
        scalar_type(BIT),
        scalar_type(INT32),
        scalar_type(UINT64),
        array_type(vec![2], INT32),
        array_type(vec![2, 3], INT32),
        array_type(vec![3], BIT),
        array_type(vec![2], UINT64),
        array_type(vec![128], BIT),
        array_type(vec![3, 2], INT64),
    ])
    .boxed()
}

fn arb_invalid_type() -> BoxedStrategy<Type> {
    let bad_leaf = proptest::sample::select(vec![
        Type::Array(vec![], INT32),
        Type::Array(vec![0], INT32),
        Type::Array(vec![2, 0, 3], BIT),
        Type::Array(vec![1 << 40, 1 << 40], UINT64),
        Type::Array(vec![u64::MAX, 2], BIT),
    ]);
    (bad_leaf, 0u8..6)
        .prop_map(|(b, w)| match w {
            0 | 1 => b,
            2 => tuple_type(vec![scalar_type(INT32), b]),
            3 => vector_type(2, b),
            4 => named_tuple_type(vec![("a".into(), scalar_type(BIT)), ("a".into(), scalar_type(INT32))]),
            _ => named_tuple_type(vec![("a".into(), b)]),
        })
        .boxed()
}

/// types that reach the size-limit code paths of the build at hand
fn arb_big_type() -> BoxedStrategy<Type> {
    if SMALL {
        // 64-bit arrays of 8..=14 elements are a little below MAX_INDIVIDUAL_NODE_SIZE (1000 bits),
        // 15..=24 above; a dozen of the former exceed MAX_TOTAL_SIZE_NODES (10000 bits)
        prop_oneof![
            6 => (8u64..=14).prop_map(|k| array_type(vec![k], INT64)),
            2 => (15u64..=24).prop_map(|k| array_type(vec![k], UINT64)),
            1 => (2u64..=6).prop_map(|k| array_type(vec![k, 2], INT128)),
            1 => (50u64..=999).prop_map(|k| array_type(vec![k], BIT)),
            1 => (1000u64..=1100).prop_map(|k| array_type(vec![k], BIT)),
        ]
        .boxed()
    } else {
        proptest::sample::select(vec![
            // size estimate about 2^63: one fits, two overflow the total counter
            array_type(vec![1 << 57], INT64),
            array_type(vec![1 << 58], INT32),
            array_type(vec![1 << 29, 1 << 28], UINT64),
            // valid shape whose size estimate overflows u64
            array_type(vec![1 << 32, 1 << 31], INT64),
            array_type(vec![1 << 62], INT32),
            vector_type(1 << 62, scalar_type(UINT64)),
            // harmless but large
            array_type(vec![1 << 40], BIT),
        ])
        .boxed()
    }
}

pub fn arb_c11_type() -> BoxedStrategy<Type> {
    prop_oneof![
        10 => arb_simple_leaf(),
        8 => arb_type(2),
        2 => arb_invalid_type(),
        3 => arb_big_type(),
    ]
    .boxed()
}

// ---------------------------------------------------------------------------------------------
// strategies for histories

fn arb_c() -> BoxedStrategy<u8> {
    prop_oneof![3 => Just(0u8), 1 => Just(1u8)].boxed()
}
fn arb_gsel() -> BoxedStrategy<GSel> {
    (0u8..8, any::<u16>()).prop_map(|(m, i)| GSel { m, i }).boxed()
}
fn arb_nref() -> BoxedStrategy<NRef> {
    (prop_oneof![14 => Just(NS::Same), 1 => Just(NS::OtherGraph), 1 => Just(NS::OtherCtx)], any::<u16>())
        .prop_map(|(s, i)| NRef { s, i })
        .boxed()
}
fn arb_gref() -> BoxedStrategy<GRef> {
    (prop_oneof![6 => Just(GS::Callable), 2 => Just(GS::Local), 1 => Just(GS::OtherCtx)], any::<u16>())
        .prop_map(|(s, i)| GRef { s, i })
        .boxed()
}

pub fn all_kinds() -> Vec<(u32, NK)> {
    use NK::*;
    vec![
        (14, Input),
        (3, Zeros),
        (3, Ones),
        (2, Random),
        (4, Const),
        (8, Add),
        (3, Sub),
        (3, Mul),
        (1, MixedMul),
        (1, Dot),
        (1, Matmul),
        (1, Gemm),
        (5, Nop),
        (1, Print),
        (5, MkTuple),
        (3, MkNamed),
        (3, MkVector),
        (4, TupleGet),
        (2, NamedGet),
        (1, VectorGet),
        (1, Zip),
        (3, Repeat),
        (2, A2V),
        (2, V2A),
        (3, A2B),
        (1, B2A),
        (2, Sum),
        (1, CumSum),
        (1, Permute),
        (1, Get),
        (1, Slice),
        (3, Reshape),
        (1, Stack),
        (1, Concat),
        (1, Trunc),
        (1, Prf),
        (1, PermPrf),
        (1, RandPerm),
        (1, InvPerm),
        (1, Sort),
        (1, Gather),
        (1, Assert),
        (1, CustomNot),
        (1, CustomOr),
        (8, Call),
        (3, Iterate),
    ]
}

fn arb_kind() -> BoxedStrategy<NK> {
    let ks = all_kinds();
    let total: u32 = ks.iter().map(|(w, _)| *w).sum();
    (0..total)
        .prop_map(move |mut x| {
            for (w, k) in &ks {
                if x < *w {
                    return *k;
                }
                x -= *w;
            }
            NK::Nop
        })
        .boxed()
}

pub fn arb_op() -> BoxedStrategy<Op> {
    let add = (
        arb_c(),
        arb_gsel(),
        arb_kind(),
        proptest::collection::vec(arb_nref(), 0..4),
        proptest::collection::vec(arb_gref(), 0..2),
        any::<[u16; 4]>(),
        arb_c11_type(),
    )
        .prop_map(|(c, g, k, deps, gd, p, t)| Op::AddNode { c, g, k, deps, gd, p, t });
    let inputs = (arb_c(), arb_gsel(), arb_c11_type(), 1u8..7).prop_map(|(c, g, t, n)| Op::Inputs { c, g, t, n });
    let big_inputs = (arb_c(), arb_gsel(), arb_big_type(), 1u8..7).prop_map(|(c, g, t, n)| Op::Inputs { c, g, t, n });
    prop_oneof![
        7 => arb_c().prop_map(|c| Op::CreateGraph { c }),
        48 => add,
        3 => inputs,
        (if SMALL { 5 } else { 2 }) => big_inputs,
        8 => (arb_c(), arb_gsel(), arb_nref(), 0u8..6, 0u8..8)
            .prop_map(|(c, g, n, name, via)| Op::NameNode { c, g, n, name, via }),
        3 => (arb_c(), arb_gsel(), 0u8..6, 0u8..8).prop_map(|(c, g, name, via)| Op::NameGraph { c, g, name, via }),
        4 => (arb_c(), arb_gsel(), arb_nref(), 0u8..8).prop_map(|(c, g, n, a)| Op::AnnotNode { c, g, n, a }),
        2 => (arb_c(), arb_gsel(), 0u8..3).prop_map(|(c, g, a)| Op::AnnotGraph { c, g, a }),
        7 => (arb_c(), arb_gsel(), arb_nref(), any::<bool>())
            .prop_map(|(c, g, n, via_node)| Op::SetOutput { c, g, n, via_node }),
        6 => (arb_c(), arb_gsel()).prop_map(|(c, g)| Op::Finalize { c, g }),
        3 => (arb_c(), arb_gref(), any::<bool>()).prop_map(|(c, g, via_graph)| Op::SetMain { c, g, via_graph }),
        1 => arb_c().prop_map(|c| Op::FinalizeCtx { c }),
        1 => arb_c().prop_map(|c| Op::Seal { c }),
        2 => (arb_c(), arb_simple_leaf(), arb_simple_leaf()).prop_map(|(c, t1, t2)| Op::Body { c, t1, t2 }),
        2 => (arb_c(), arb_gsel(), any::<u16>()).prop_map(|(c, g, i)| Op::Query { c, g, i }),
    ]
    .boxed()
}

pub fn arb_history(min: usize, max: usize) -> BoxedStrategy<History> {
    (
        prop_oneof![2 => Just(true), 1 => Just(false)],
        proptest::collection::vec(arb_op(), min..=max),
        any::<u16>(),
    )
        .prop_map(|(two_ctx, mut ops, drop_sel)| {
            // every history starts with a graph in each context (construction over rejection)
            ops.insert(0, Op::CreateGraph { c: 0 });
            if two_ctx {
                ops.insert(1, Op::CreateGraph { c: 1 });
            }
            History { two_ctx, ops, drop_sel }
        })
        .boxed()
}

// ---------------------------------------------------------------------------------------------
// model

#[derive(Clone, Debug)]
pub struct MNode {
    pub op: Operation,
    pub deps: Vec<usize>,
    pub gdeps: Vec<usize>,
    pub ty: Type,
    pub name: Option<String>,
    pub annots: Vec<NodeAnnotation>,
}
#[derive(Clone, Debug, Default)]
pub struct MGraph {
    pub nodes: Vec<MNode>,
    pub output: Option<usize>,
    pub finalized: bool,
    pub name: Option<String>,
    pub annots: Vec<GraphAnnotation>,
}
#[derive(Clone, Debug, Default)]
pub struct MCtx {
    pub graphs: Vec<MGraph>,
    pub main: Option<usize>,
    pub finalized: bool,
    /// a type of astronomical size was used in this context (size-limit errors become possible in
    /// the normal build too)
    pub huge_seen: bool,
}

impl MGraph {
    pub fn input_types(&self) -> Vec<Type> {
        self.nodes
            .iter()
            .filter(|n| matches!(n.op, Operation::Input(_)))
            .map(|n| n.ty.clone())
            .collect()
    }
    pub fn output_type(&self) -> Option<Type> {
        self.output.map(|o| self.nodes[o].ty.clone())
    }
}

#[derive(Clone, Debug, PartialEq)]
pub enum Expect {
    Ok,
    Err(&'static str),
    Either,
}

pub fn fixed_arity(k: NK) -> Option<usize> {
    use NK::*;
    match k {
        Input | Zeros | Ones | Random | Const | RandPerm => Some(0),
        Nop | Print | TupleGet | NamedGet | Repeat | A2V | V2A | A2B | B2A | Sum | CumSum | Permute | Get
        | Slice | Reshape | Trunc | Prf | PermPrf | InvPerm | Sort => Some(1),
        Add | Sub | Mul | MixedMul | Dot | Matmul | Gemm | VectorGet | Gather | Assert | Iterate => Some(2),
        MkTuple | MkNamed | MkVector | Zip | Stack | Concat | CustomNot | CustomOr | Call => None,
    }
}

/// number of node dependencies the operation documents (None = variable)
pub fn op_arity(op: &Operation) -> Option<usize> {
    use Operation::*;
    match op {
        Input(_) | Zeros(_) | Ones(_) | Random(_) | Constant(_, _) | RandomPermutation(_) => Some(0),
        NOP | Print(_) | TupleGet(_) | NamedTupleGet(_) | Repeat(_) | ArrayToVector | VectorToArray | A2B
        | B2A(_) | Sum(_) | CumSum(_) | PermuteAxes(_) | Get(_) | GetSlice(_) | Reshape(_) | Truncate(_)
        | PRF(_, _) | PermutationFromPRF(_, _) | InversePermutation | Sort(_) => Some(1),
        Add | Subtract | Multiply | MixedMultiply | Dot | Matmul | Gemm(_, _) | VectorGet | Gather(_)
        | Assert(_) | Iterate => Some(2),
        _ => None,
    }
}

/// operations that are harmless on operands of astronomical size (type inference only looks at
/// the shape); everything else is replaced by NOP when such an operand is picked — a cost guard
pub fn safe_for_huge(k: NK) -> bool {
    use NK::*;
    matches!(k, Nop | Print | Add | Sub | Mul | MkTuple | MkNamed | TupleGet | NamedGet | A2B | Repeat | Call | MkVector)
}

pub fn annot_from(a: u8) -> NodeAnnotation {
    match a % 8 {
        0 => NodeAnnotation::AssociativeOperation,
        1 => NodeAnnotation::Private,
        2 => NodeAnnotation::Send(0, 1),
        3 => NodeAnnotation::Send(2, 0),
        4 => NodeAnnotation::PRFMultiplication,
        5 => NodeAnnotation::PRFB2A,
        6 => NodeAnnotation::PRFTruncate,
        _ => NodeAnnotation::MpcCall,
    }
}
pub fn gannot_from(a: u8) -> GraphAnnotation {
    match a % 3 {
        0 => GraphAnnotation::AssociativeOperation,
        1 => GraphAnnotation::OneBitState,
        _ => GraphAnnotation::SmallState,
    }
}

pub fn st_from(p: u16) -> ScalarType {
    ALL_ST[(p as usize) % ALL_ST.len()]
}

/// Builds the operation for kind `k`; parameters are constructed to fit the operand types `dts`
/// unless a twist (p[3] % 8) asks for an invalid variant.
pub fn build_operation(k: NK, p: &[u16; 4], t: &Type, dts: &[Type]) -> Operation {
    let tw = p[3] % 8;
    let d0 = dts.first();
    let rank = d0.map(|d| shape_of(d).len()).unwrap_or(0);
    match k {
        NK::Input => Operation::Input(t.clone()),
        NK::Zeros => Operation::Zeros(t.clone()),
        NK::Ones => Operation::Ones(t.clone()),
        NK::Random => Operation::Random(t.clone()),
        NK::Const => {
            let small_ok = my_valid(t) && total_elems_sat(t) <= 512 && count_nodes(t) <= 64;
            if !small_ok {
                return if my_valid(t) {
                    Operation::Zeros(t.clone())
                } else {
                    Operation::Constant(t.clone(), Value::from_bytes(vec![]))
                };
            }
            let v = if tw == 2 {
                Value::from_bytes(vec![0u8; (p[0] % 5) as usize])
            } else {
                crate::hv::encode(&crate::hv::zero(t), t)
            };
            Operation::Constant(t.clone(), v)
        }
        NK::Add => Operation::Add,
        NK::Sub => Operation::Subtract,
        NK::Mul => Operation::Multiply,
        NK::MixedMul => Operation::MixedMultiply,
        NK::Dot => Operation::Dot,
        NK::Matmul => Operation::Matmul,
        NK::Gemm => Operation::Gemm(p[0] & 1 == 1, p[0] & 2 == 2),
        NK::Nop => Operation::NOP,
        NK::Print => Operation::Print("m".into()),
        NK::MkTuple => Operation::CreateTuple,
        NK::MkNamed => {
            let mut names: Vec<String> = (0..dts.len()).map(|i| format!("f{}", i)).collect();
            if tw == 3 && names.len() >= 2 {
                names[1] = "f0".into();
            }
            if tw == 4 {
                names.pop();
            }
            Operation::CreateNamedTuple(names)
        }
        NK::MkVector => {
            if tw == 5 || d0.is_none() {
                Operation::CreateVector(t.clone())
            } else {
                Operation::CreateVector(d0.unwrap().clone())
            }
        }
        NK::TupleGet => match d0 {
            Some(Type::Tuple(ts)) if !ts.is_empty() && tw != 6 => Operation::TupleGet(pick(p[0], ts.len()) as u64),
            Some(Type::Tuple(ts)) => Operation::TupleGet(ts.len() as u64 + (p[0] % 3) as u64),
            _ => Operation::TupleGet((p[0] % 4) as u64),
        },
        NK::NamedGet => match d0 {
            Some(Type::NamedTuple(ts)) if !ts.is_empty() && tw != 6 => {
                Operation::NamedTupleGet(ts[pick(p[0], ts.len())].0.clone())
            }
            _ => Operation::NamedTupleGet(if tw == 6 { "zz".into() } else { "f0".into() }),
        },
        NK::VectorGet => Operation::VectorGet,
        NK::Zip => Operation::Zip,
        NK::Repeat => {
            if tw == 7 {
                Operation::Repeat(if p[0] % 2 == 0 { 0 } else { 1 << 62 })
            } else {
                Operation::Repeat(1 + (p[0] % 4) as u64)
            }
        }
        NK::A2V => Operation::ArrayToVector,
        NK::V2A => Operation::VectorToArray,
        NK::A2B => Operation::A2B,
        NK::B2A => Operation::B2A(st_from(p[0])),
        NK::Sum => {
            if rank > 0 && tw != 6 {
                Operation::Sum(vec![pick(p[0], rank) as u64])
            } else {
                Operation::Sum(vec![rank as u64 + (p[1] % 2) as u64])
            }
        }
        NK::CumSum => {
            if rank > 0 && tw != 6 {
                Operation::CumSum(pick(p[0], rank) as u64)
            } else {
                Operation::CumSum(rank as u64 + (p[1] % 2) as u64)
            }
        }
        NK::Permute => {
            if rank > 0 && tw != 6 {
                let r = rank as u64;
                let s = p[0] as u64 % r;
                Operation::PermuteAxes((0..r).map(|i| (i + s) % r).collect())
            } else {
                Operation::PermuteAxes(vec![0, 0])
            }
        }
        NK::Get => {
            let sh = d0.map(shape_of).unwrap_or_default();
            if !sh.is_empty() && tw != 6 {
                Operation::Get(vec![pick(p[0], sh[0].min(1 << 16) as usize) as u64])
            } else {
                Operation::Get(vec![sh.first().copied().unwrap_or(0)])
            }
        }
        NK::Slice => match p[0] % 4 {
            0 => Operation::GetSlice(vec![SliceElement::SubArray(Some(0), Some(1 + (p[1] % 3) as i64), None)]),
            1 => Operation::GetSlice(vec![SliceElement::SingleIndex((p[1] % 3) as i64 - 1)]),
            2 => Operation::GetSlice(vec![SliceElement::Ellipsis, SliceElement::SubArray(None, None, Some(-1))]),
            _ => Operation::GetSlice(vec![SliceElement::SubArray(None, None, Some(0))]),
        },
        NK::Reshape => match d0 {
            Some(d) if is_leaf_t(d) && !is_huge(d) && tw != 6 => {
                let n = shape_elems(&shape_of(d)).unwrap_or(1);
                Operation::Reshape(array_type(vec![n], st_of(d).unwrap()))
            }
            _ => Operation::Reshape(t.clone()),
        },
        NK::Stack => {
            let n = dts.len() as u64;
            Operation::Stack(vec![if tw == 6 { n + 1 } else { n.max(1) }])
        }
        NK::Concat => Operation::Concatenate(if tw == 6 { rank as u64 + 1 } else { pick(p[0], rank.max(1)) as u64 }),
        NK::Trunc => Operation::Truncate(if tw == 6 { 0 } else { 1u128 << (p[0] % 8) }),
        NK::Prf => Operation::PRF(p[0] as u64, t.clone()),
        NK::PermPrf => Operation::PermutationFromPRF(p[0] as u64, 1 + (p[1] % 5) as u64),
        NK::RandPerm => Operation::RandomPermutation((p[0] % 5) as u64),
        NK::InvPerm => Operation::InversePermutation,
        NK::Sort => Operation::Sort("f0".into()),
        NK::Gather => Operation::Gather(0),
        NK::Assert => Operation::Assert("m".into()),
        NK::CustomNot => Operation::Custom(CustomOperation::new(Not {})),
        NK::CustomOr => Operation::Custom(CustomOperation::new(Or {})),
        NK::Call => Operation::Call,
        NK::Iterate => Operation::Iterate,
    }
}

fn count_nodes(t: &Type) -> u64 {
    match t {
        Type::Scalar(_) | Type::Array(_, _) => 1,
        Type::Vector(n, e) => 1u64.saturating_add(n.saturating_mul(count_nodes(e))),
        Type::Tuple(ts) => 1 + ts.iter().map(|x| count_nodes(x)).sum::<u64>(),
        Type::NamedTuple(ts) => 1 + ts.iter().map(|(_, x)| count_nodes(x)).sum::<u64>(),
    }
}

/// Type-level prediction for an operation whose structural guards passed. Only what the
/// documentation of the builder methods states is predicted; everything else is `Either`.
pub fn predict_type(op: &Operation, dts: &[Type], callee: Option<&MGraph>) -> (Expect, Option<Type>) {
    use Operation::*;
    let either = (Expect::Either, None);
    let ok = |t: Type| {
        if is_huge(&t) {
            // the size estimate of such a type may overflow: outcome not predicted, type is
            (Expect::Either, Some(t))
        } else {
            (Expect::Ok, Some(t))
        }
    };
    match op {
        Input(t) | Zeros(t) | Ones(t) | Random(t) => {
            if !my_valid(t) {
                (Expect::Err("invalid-type"), None)
            } else {
                ok(t.clone())
            }
        }
        Constant(t, v) => {
            if !my_valid(t) {
                return (Expect::Err("invalid-type"), None);
            }
            if is_huge(t) {
                return either;
            }
            let fits = crate::hv::decode(v, t).is_ok();
            if fits {
                ok(t.clone())
            } else {
                (Expect::Either, Some(t.clone()))
            }
        }
        NOP | Print(_) => ok(dts[0].clone()),
        Add | Subtract | Multiply => {
            let (a, b) = (&dts[0], &dts[1]);
            if !is_leaf_t(a) || !is_leaf_t(b) {
                return (Expect::Err("arith-non-array"), None);
            }
            if st_of(a) != st_of(b) {
                return (Expect::Err("arith-scalar-type-mismatch"), None);
            }
            if a == b {
                return ok(a.clone());
            }
            if matches!(a, Type::Scalar(_)) {
                return ok(b.clone());
            }
            if matches!(b, Type::Scalar(_)) {
                return ok(a.clone());
            }
            either
        }
        CreateTuple => ok(tuple_type(dts.to_vec())),
        CreateNamedTuple(names) => {
            if names.len() != dts.len() {
                return (Expect::Err("named-tuple-arity"), None);
            }
            let mut s = names.clone();
            s.sort();
            s.dedup();
            if s.len() != names.len() || names.is_empty() {
                return either;
            }
            ok(named_tuple_type(names.iter().cloned().zip(dts.iter().cloned()).collect()))
        }
        CreateVector(t) => {
            if !my_valid(t) {
                return either;
            }
            if dts.iter().any(|d| d != t) {
                return (Expect::Err("vector-element-type"), None);
            }
            ok(vector_type(dts.len() as u64, t.clone()))
        }
        TupleGet(i) => match &dts[0] {
            Type::Tuple(ts) => {
                if (*i as usize) < ts.len() {
                    ok((*ts[*i as usize]).clone())
                } else {
                    (Expect::Err("tuple-index"), None)
                }
            }
            Type::NamedTuple(_) => either,
            _ => (Expect::Err("tuple-get-non-tuple"), None),
        },
        NamedTupleGet(key) => match &dts[0] {
            Type::NamedTuple(ts) => match ts.iter().find(|(n, _)| n == key) {
                Some((_, t)) => ok((**t).clone()),
                None => (Expect::Err("named-tuple-key"), None),
            },
            _ => (Expect::Err("named-get-non-named-tuple"), None),
        },
        Repeat(n) => {
            if *n == 0 || *n > 1000 {
                either
            } else {
                ok(vector_type(*n, dts[0].clone()))
            }
        }
        ArrayToVector => match &dts[0] {
            Type::Array(s, st) => ok(vector_type(s[0], leaf(*st, &s[1..]))),
            Type::Scalar(_) => either,
            _ => (Expect::Err("a2v-non-array"), None),
        },
        VectorToArray => match &dts[0] {
            Type::Vector(n, e) if *n > 0 && is_leaf_t(e) => {
                let mut s = vec![*n];
                s.extend(shape_of(e));
                ok(array_type(s, st_of(e).unwrap()))
            }
            Type::Vector(_, _) => either,
            _ => (Expect::Err("v2a-non-vector"), None),
        },
        A2B => match &dts[0] {
            d if is_leaf_t(d) && st_of(d) != Some(BIT) => {
                let st = st_of(d).unwrap();
                let mut s = shape_of(d);
                s.push(bits(st) as u64);
                ok(array_type(s, BIT))
            }
            d if is_leaf_t(d) => either,
            _ => (Expect::Err("a2b-non-array"), None),
        },
        B2A(_) => {
            if is_leaf_t(&dts[0]) {
                either
            } else {
                (Expect::Err("b2a-non-array"), None)
            }
        }
        Reshape(t) => {
            let d = &dts[0];
            if is_leaf_t(d) && is_leaf_t(t) && my_valid(t) && st_of(d) == st_of(t) {
                let n1 = shape_elems(&shape_of(d));
                let n2 = shape_elems(&shape_of(t));
                if n1 == n2 && n1.is_some() {
                    return ok(t.clone());
                }
            }
            either
        }
        Call => {
            let g = match callee {
                Some(g) => g,
                None => return either,
            };
            let ins = g.input_types();
            if ins.len() != dts.len() {
                return (Expect::Err("call-argument-count"), None);
            }
            if ins.iter().zip(dts.iter()).any(|(a, b)| a != b) {
                return (Expect::Err("call-argument-type"), None);
            }
            match g.output_type() {
                Some(t) => ok(t),
                None => either,
            }
        }
        Iterate => {
            let g = match callee {
                Some(g) => g,
                None => return either,
            };
            let ins = g.input_types();
            if ins.len() != 2 {
                return (Expect::Err("iterate-graph-inputs"), None);
            }
            let out = match g.output_type() {
                Some(t) => t,
                None => return either,
            };
            if let (Type::Tuple(ots), Type::Vector(n, e)) = (&out, &dts[1]) {
                if ots.len() == 2 && *ots[0] == ins[0] && dts[0] == ins[0] && **e == ins[1] && *n <= 1000 {
                    return ok(tuple_type(vec![ins[0].clone(), vector_type(*n, (*ots[1]).clone())]));
                }
            }
            either
        }
        _ => either,
    }
}

pub fn op_name(op: &Operation) -> String {
    format!("{}", op)
}

