//! C12 sub-check "rt-order": contexts built through UNUSUAL orders of API calls (graphs created and
//! finalized in any order, calls/iterations attempted towards older AND younger graphs, outputs that
//! are not the last node, main graph chosen anywhere). Every call the builder rejects is skipped;
//! whatever context the library lets through must round-trip like any other ("any context the
//! library can produce").
use crate::c12_util::round_trip;
use crate::core::*;
use crate::gen::pick;
use ciphercore_base::data_types::{array_type, scalar_type, ScalarType, Type, INT32, UINT8};
use ciphercore_base::graphs::{create_context, Graph, Node};
use proptest::prelude::*;
use serde::{Deserialize, Serialize};

#[derive(Clone, Debug, Serialize, Deserialize)]
pub enum Ev {
    Create,
    Input(u16, u8),
    Op(u16, u16, u16, u8),
    Call(u16, u16, u16),
    SetOutput(u16, u16),
    Finalize(u16),
    Name(u16, u16, u8),
}

#[derive(Clone, Debug, Serialize, Deserialize)]
pub struct OrderCase {
    pub evs: Vec<Ev>,
    pub main: u16,
    pub seed: [u8; 16],
}

fn ty(k: u8) -> Type {
    match k % 3 {
        0 => scalar_type(INT32),
        1 => array_type(vec![2], INT32),
        _ => if k % 16 == 5 { scalar_type(UINT8) } else { array_type(vec![2, 2], ScalarType::U64) },
    }
}

pub fn arb_case() -> BoxedStrategy<OrderCase> {
    let ev = prop_oneof![
        2 => Just(Ev::Create),
        4 => (any::<u16>(), any::<u8>()).prop_map(|(g, k)| Ev::Input(g, k)),
        5 => (any::<u16>(), any::<u16>(), any::<u16>(), any::<u8>()).prop_map(|(g, a, b, k)| Ev::Op(g, a, b, k)),
        9 => (any::<u16>(), any::<u16>(), any::<u16>()).prop_map(|(g, h, a)| Ev::Call(g, h, a)),
        3 => (any::<u16>(), any::<u16>()).prop_map(|(g, n)| Ev::SetOutput(g, n)),
        5 => any::<u16>().prop_map(Ev::Finalize),
        1 => (any::<u16>(), any::<u16>(), any::<u8>()).prop_map(|(g, n, k)| Ev::Name(g, n, k)),
    ];
    (proptest::collection::vec(ev, 6..40), any::<u16>(), any::<[u8; 16]>())
        .prop_map(|(mut evs, main, seed)| {
            evs.insert(0, Ev::Create);
            evs.insert(1, Ev::Create);
            OrderCase { evs, main, seed }
        })
        .boxed()
}

pub fn oracle(c: &OrderCase) -> Outcome {
    let ctx = match create_context() {
        Ok(c) => c,
        Err(_) => return Outcome::skip("no-context"),
    };
    let mut graphs: Vec<Graph> = vec![];
    let mut forward_calls = 0usize;
    let mut calls = 0usize;
    let nodes_of = |g: &Graph| -> Vec<Node> { g.get_nodes() };
    for ev in &c.evs {
        match ev {
            Ev::Create => {
                if graphs.len() < 4 {
                    if let Ok(g) = ctx.create_graph() {
                        graphs.push(g);
                    }
                }
            }
            Ev::Input(g, k) => {
                let g = &graphs[pick(*g, graphs.len())];
                let _ = g.input(ty(*k));
            }
            Ev::Op(g, a, b, k) => {
                let g = &graphs[pick(*g, graphs.len())];
                let ns = nodes_of(g);
                if ns.is_empty() {
                    continue;
                }
                let (x, y) = (ns[pick(*a, ns.len())].clone(), ns[pick(*b, ns.len())].clone());
                let _ = match k % 4 {
                    0 => g.add(x, y),
                    1 => g.multiply(x, y),
                    2 => g.create_tuple(vec![x, y]),
                    _ => g.subtract(x, y),
                };
            }
            Ev::Call(g, h, a) => {
                let (gi, hi) = (pick(*g, graphs.len()), pick(*h, graphs.len()));
                if gi == hi {
                    continue;
                }
                let (g, h) = (&graphs[gi], &graphs[hi]);
                // half of the time the callee is completed right before the call (still an unusual
                // order: the caller graph may be older than the callee)
                if a & 1 == 1 && !h.get_nodes().is_empty() {
                    if h.get_output_node().is_err() {
                        let _ = h.set_output_node(h.get_nodes().last().unwrap().clone());
                    }
                    let _ = h.finalize();
                }
                // arguments: for each input of the callee a node of the caller with that type
                let mut args = vec![];
                let ns = nodes_of(g);
                let mut ok = true;
                for n in h.get_nodes() {
                    if let ciphercore_base::graphs::Operation::Input(t) = n.get_operation() {
                        let cands: Vec<&Node> = ns.iter().filter(|m| m.get_type().ok().as_ref() == Some(&t)).collect();
                        if cands.is_empty() {
                            ok = false;
                            break;
                        }
                        args.push(cands[pick(*a, cands.len())].clone());
                    }
                }
                if !ok {
                    continue;
                }
                if g.call(h.clone(), args).is_ok() {
                    calls += 1;
                    if hi > gi {
                        forward_calls += 1;
                    }
                }
            }
            Ev::SetOutput(g, n) => {
                let g = &graphs[pick(*g, graphs.len())];
                let ns = nodes_of(g);
                if !ns.is_empty() {
                    let _ = g.set_output_node(ns[pick(*n, ns.len())].clone());
                }
            }
            Ev::Finalize(g) => {
                let _ = graphs[pick(*g, graphs.len())].finalize();
            }
            Ev::Name(g, n, k) => {
                let g = &graphs[pick(*g, graphs.len())];
                let ns = nodes_of(g);
                if !ns.is_empty() {
                    let _ = ns[pick(*n, ns.len())].set_name(&format!("n{}", k % 5));
                }
            }
        }
    }
    // complete the context: every graph needs an output and must be finalized
    for g in &graphs {
        if g.get_output_node().is_err() {
            let ns = nodes_of(g);
            let n = match ns.last() {
                Some(n) => n.clone(),
                None => match g.input(scalar_type(INT32)) {
                    Ok(n) => n,
                    Err(_) => return Outcome::skip("cannot-complete"),
                },
            };
            if g.set_output_node(n).is_err() {
                return Outcome::skip("cannot-complete");
            }
        }
        let _ = g.finalize();
    }
    let main = graphs[pick(c.main, graphs.len())].clone();
    if ctx.set_main_graph(main).is_err() || ctx.finalize().is_err() {
        return Outcome::skip("cannot-finalize-context");
    }
    match round_trip(&ctx, None, false, c.seed) {
        Ok(ls) => Outcome::pass(calls > 0 && graphs.len() >= 2)
            .labels(ls)
            .label(format!("graphs:{}", graphs.len()))
            .label(format!("calls:{}", calls.min(5)))
            .label(format!("forward-calls-accepted:{}", forward_calls.min(3))),
        Err((sig, msg)) => Outcome::fail(&format!("order-{}", sig), msg),
    }
}
