//! Seed corpora for the libFuzzer tier (written by `vharness corpus <target> <dir>`).
use crate::c12::{arb_rt_case, make, pinned_texts, Prov};
use crate::core::mix_seed;
use proptest::prelude::*;
use proptest::strategy::ValueTree;
use proptest::test_runner::{Config, RngAlgorithm, TestRng, TestRunner};

pub fn write_ctx_corpus(dir: &str, n: usize, seed: u64) -> usize {
    let _ = std::fs::create_dir_all(dir);
    let prov = prop_oneof![
        4 => Just(Prov::Plain),
        1 => Just(Prov::Instantiated),
        1 => (0u8..3).prop_map(Prov::Inlined),
        1 => Just(Prov::Optimized),
    ]
    .boxed();
    let strat = arb_rt_case(prov, 6, 1, 1, false);
    let rng = TestRng::from_seed(RngAlgorithm::ChaCha, &mix_seed(seed, "corpus", 0));
    let mut runner = TestRunner::new_with_rng(Config::default(), rng);
    let mut written = 0;
    let mut tries = 0;
    while written < n && tries < n * 20 {
        tries += 1;
        let case = strat.new_tree(&mut runner).unwrap().current();
        if let Ok(m) = make(&case, 16) {
            if let Ok(text) = serde_json::to_string(&m.ctx) {
                if text.len() < 6000 {
                    let _ = std::fs::write(format!("{}/valid-{:04}.json", dir, written), text);
                    written += 1;
                }
            }
        }
    }
    for (i, (_, t)) in pinned_texts().into_iter().enumerate() {
        let _ = std::fs::write(format!("{}/pinned-{:02}.json", dir, i), t);
        written += 1;
    }
    written
}
