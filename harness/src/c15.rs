//! C15 — PRF and PRNG are deterministic, in-domain and unbiased.
//!
//! Sub-checks (DESIGN §3 C15):
//!  * `purity`      PRF / PermutationFromPRF nodes keyed by Input nodes, evaluated node by node through several
//!                  `SimpleEvaluator` instances in different orders, repeatedly and interleaved with Random /
//!                  RandomPermutation calls: (1) purity, (2) separation, (3) validity of every produced value;
//!  * `eval-random` Random / RandomPermutation through seeded evaluators: validity, replay, seed separation;
//!  * `prng-replay` `PRNG::new(seed)`: replay of arbitrary request sequences, validity, seed separation;
//!  * `range-exact` / `range-moduli`  `get_random_in_range` against the harness's reference rejection sampler
//!                  reading a twin generator (values and number of bytes consumed);
//!  * `chi`         chi-square of bounded draws and of permutation frequencies (fixed draws, fixed thresholds).
use crate::core::*;
use crate::gen::*;
use crate::hv::*;
use crate::util::catch;
use ciphercore_base::data_types::{
    array_type, named_tuple_type, scalar_type, tuple_type, vector_type, ScalarType, Type, BIT, UINT64,
};
use ciphercore_base::data_values::Value;
use ciphercore_base::evaluators::simple_evaluator::SimpleEvaluator;
use ciphercore_base::evaluators::Evaluator;
use ciphercore_base::graphs::{create_context, Context, Graph, Node};
use ciphercore_base::random::PRNG;
use proptest::prelude::*;
use serde::{Deserialize, Serialize};
use serde_json::Value as J;
use std::collections::{BTreeSet, HashMap};

pub const RULE: &str = "generated graphs of 1-12 PRF/PermutationFromPRF nodes over Input keys (fresh / copied / one-bit-flipped), counters {0,1,2,2^32,2^64-1,adjacent,random}, \
output types from a per-case palette (leaf sizes around the buffer steps 16..2000 bytes, ragged bit arrays, nested containers; permutation lengths 1-300), \
2-4 evaluator instances each with its own order, repeats and interleaved Random/RandomPermutation calls; PRNG request sequences; bounded draws for moduli {1..,2^k,2^k+-1,2^63+1,2^64-1}; \
non-trivial = (purity) >= 2 evaluator instances with >= 2 distinct evaluation orders; (eval-random, prng-replay) the sequence consumes more than one 512-byte generator buffer or holds a ragged bit leaf; \
(range-*) the reference sampler rejected at least one draw or the modulus is not a power of two; (chi) always; distinct = distinct generated case";

/// statistical threshold parameter: P(chi2_k >= k + 2 sqrt(k x) + 2 x) <= exp(-x) (Laurent-Massart);
/// x = 36 gives 2.4e-16 per test; at most ~2000 tests per run leave > 3 decades for the error of the
/// chi-square approximation of the multinomial (expected cell counts are >= 1800).
const CHI_X: f64 = 36.0;

// ---------------------------------------------------------------------------------------------
// shared helpers

#[derive(Clone, PartialEq, Eq, Debug)]
enum VT {
    B(Vec<u8>),
    V(Vec<VT>),
}

fn vt(v: &Value) -> VT {
    v.access(
        |b| Ok(VT::B(b.to_vec())),
        |vs| Ok(VT::V(vs.iter().map(vt).collect())),
    )
    .unwrap()
}

fn short(v: &VT) -> String {
    let s = format!("{:?}", v);
    s.chars().take(160).collect()
}

#[derive(Clone, Debug, PartialEq, Eq, Serialize, Deserialize)]
pub enum Out {
    /// a value of this type (PRF / Random)
    Val(Type),
    /// a permutation of 0..n (PermutationFromPRF / RandomPermutation)
    Perm(u64),
}

fn out_type(o: &Out) -> Type {
    match o {
        Out::Val(t) => t.clone(),
        Out::Perm(n) => array_type(vec![*n], UINT64),
    }
}

/// bytes of the generator stream that a value of type t takes (sum over leaves of ceil(bits/8))
fn stream_bytes(t: &Type) -> u64 {
    if is_leaf(t) {
        (type_elems(t) as u64 * bits(leaf_st(t)) as u64 + 7) / 8
    } else {
        children_types(t).iter().map(stream_bytes).sum()
    }
}
fn entropy_bits(t: &Type) -> u64 {
    if is_leaf(t) {
        type_elems(t) as u64 * bits(leaf_st(t)) as u64
    } else {
        children_types(t).iter().map(entropy_bits).sum()
    }
}
fn has_ragged_bits(t: &Type) -> bool {
    if is_leaf(t) {
        leaf_st(t) == BIT && type_elems(t) % 8 != 0
    } else {
        children_types(t).iter().any(has_ragged_bits)
    }
}
/// >= 64 bits of entropy: two independent draws coincide with probability <= 2^-64
fn out_separable(o: &Out) -> bool {
    match o {
        Out::Val(t) => entropy_bits(t) >= 64,
        Out::Perm(n) => *n >= 21, // 21! > 2^65
    }
}

/// (3) validity of a produced value; Err((signature suffix, message))
fn check_valid(v: &Value, o: &Out) -> Result<(), (&'static str, String)> {
    let t = out_type(o);
    match catch(|| v.check_type(t.clone())) {
        Ok(Ok(true)) => {}
        other => {
            return Err((
                "bad-layout",
                format!("check_type({}) -> {:?} for value {}", t, other.map(|r| r.map_err(|e| e.to_string())), short(&vt(v))),
            ))
        }
    }
    if has_stray_bits(v, &t) {
        return Err(("stray-bits", format!("unused bits set in a BIT leaf of type {}: {}", t, short(&vt(v)))));
    }
    let hv = match decode(v, &t) {
        Ok(h) => h,
        Err(e) => return Err(("bad-layout", format!("harness decoder rejects the value of type {}: {}", t, e))),
    };
    if let Out::Perm(n) = o {
        let xs = match hv {
            HVal::A(xs) => xs,
            _ => return Err(("not-a-permutation", "container value".into())),
        };
        let mut seen = vec![false; *n as usize];
        if xs.len() as u64 != *n {
            return Err(("not-a-permutation", format!("{} entries for n={}", xs.len(), n)));
        }
        for x in &xs {
            if *x >= *n as u128 || seen[*x as usize] {
                return Err(("not-a-permutation", format!("n={} entries {:?}", n, xs.iter().take(40).collect::<Vec<_>>())));
            }
            seen[*x as usize] = true;
        }
    }
    Ok(())
}

/// maximal runs of stream bytes that carry 8 random bits each (a BIT leaf with a ragged tail ends a run
/// before its last byte)
fn full_regions(v: &VT, t: &Type, cur: &mut Vec<u8>, out: &mut Vec<Vec<u8>>) {
    match v {
        VT::B(b) => {
            let ragged = leaf_st(t) == BIT && type_elems(t) % 8 != 0;
            if ragged {
                cur.extend_from_slice(&b[..b.len().saturating_sub(1)]);
                out.push(std::mem::take(cur));
            } else {
                cur.extend_from_slice(b);
            }
        }
        VT::V(cs) => {
            for (c, ct) in cs.iter().zip(children_types(t).iter()) {
                full_regions(c, ct, cur, out);
            }
        }
    }
}

fn size_class(b: u64) -> &'static str {
    match b {
        0..=16 => "bytes:<=16",
        17..=64 => "bytes:17-64",
        65..=192 => "bytes:65-192",
        193..=448 => "bytes:193-448",
        449..=960 => "bytes:449-960",
        961..=1984 => "bytes:961-1984",
        _ => "bytes:>1984",
    }
}

fn iv_class(iv: u64) -> &'static str {
    match iv {
        0 => "iv:0",
        1 => "iv:1",
        2 => "iv:2",
        0x1_0000_0000 => "iv:2^32",
        u64::MAX => "iv:2^64-1",
        _ => "iv:other",
    }
}

// ---------------------------------------------------------------------------------------------
// type strategies

/// byte sizes around the growth of the PRF buffer (batches of 64,128,256,512,512,... bytes end at
/// 64,192,448,960,1472,1984) and the sizes listed in DESIGN
const STEPS: [u64; 32] = [
    1, 2, 8, 15, 16, 17, 31, 32, 33, 63, 64, 65, 127, 128, 129, 191, 192, 193, 447, 448, 449, 511, 512, 513, 959, 960,
    961, 1472, 1473, 1984, 1985, 2000,
];

fn arb_st_weighted() -> BoxedStrategy<ScalarType> {
    prop_oneof![
        3 => Just(BIT),
        3 => proptest::sample::select(vec![ScalarType::U8, ScalarType::I8]),
        4 => proptest::sample::select(ALL_ST[3..].to_vec()),
    ]
    .boxed()
}

/// leaf type whose stream size is `bytes` (exactly for BIT/8-bit types, rounded up otherwise); BIT
/// arrays lose `k` bits of the last byte
fn leaf_of_bytes(bytes: u64, st: ScalarType, k: u64, shape_sel: u8) -> Type {
    let b = bits(st) as u64;
    let n = if b == 1 {
        (bytes * 8).saturating_sub(k).max(1)
    } else {
        ((bytes * 8 + b - 1) / b).max(1)
    };
    if n == 1 && shape_sel % 2 == 0 {
        return scalar_type(st);
    }
    for d in [2u64, 3, 4, 5] {
        if shape_sel % 4 == 3 && n % d == 0 && n / d >= 1 {
            return array_type(vec![d, n / d], st);
        }
    }
    array_type(vec![n], st)
}

fn arb_sized_leaf() -> BoxedStrategy<Type> {
    (
        proptest::sample::select(STEPS.to_vec()),
        arb_st_weighted(),
        prop_oneof![1 => Just(0u64), 3 => 1u64..8],
        any::<u8>(),
    )
        .prop_map(|(bytes, st, k, sel)| leaf_of_bytes(bytes, st, k, sel))
        .boxed()
}

fn arb_mid_leaf() -> BoxedStrategy<Type> {
    (
        prop_oneof![4 => 1u64..70, 1 => proptest::sample::select(vec![100u64, 128, 200, 400])],
        arb_st_weighted(),
        prop_oneof![1 => Just(0u64), 3 => 1u64..8],
        any::<u8>(),
    )
        .prop_map(|(bytes, st, k, sel)| leaf_of_bytes(bytes, st, k, sel))
        .boxed()
}

/// containers of mid-sized leaves: the buffer steps fall inside and between leaves
fn arb_nested_big() -> BoxedStrategy<Type> {
    let leaf = arb_mid_leaf();
    let names = ["a", "b", "c", "d"];
    prop_oneof![
        3 => proptest::collection::vec(leaf.clone(), 2..5).prop_map(tuple_type),
        2 => proptest::collection::vec(leaf.clone(), 2..4).prop_map(move |ts| {
            named_tuple_type(ts.into_iter().enumerate().map(|(i, t)| (names[i].to_string(), t)).collect())
        }),
        2 => (2u64..7, leaf.clone()).prop_map(|(n, t)| vector_type(n, t)),
        2 => (proptest::collection::vec(leaf.clone(), 1..3), 1u64..4, proptest::collection::vec(leaf, 1..3)).prop_map(
            |(mut head, n, inner)| {
                head.push(vector_type(n, tuple_type(inner)));
                tuple_type(head)
            }
        ),
    ]
    .boxed()
}

fn arb_perm_len(max: u64) -> BoxedStrategy<u64> {
    prop_oneof![
        3 => 1u64..=5,
        2 => proptest::sample::select(vec![15u64, 16, 17, 21, 22, 64, 128, 255, 256, 257, 258, 300]),
        3 => 1u64..=max,
        2 => 21u64..=60,
    ]
    .prop_map(move |n| n.min(max))
    .boxed()
}

fn arb_out(max_perm: u64) -> BoxedStrategy<Out> {
    prop_oneof![
        4 => arb_sized_leaf().prop_map(Out::Val),
        2 => arb_type(2).prop_map(Out::Val),
        3 => arb_nested_big().prop_map(Out::Val),
        3 => arb_perm_len(max_perm).prop_map(Out::Perm),
    ]
    .boxed()
}

// ---------------------------------------------------------------------------------------------
// (1)(2)(3) purity, separation, validity of PRF / PermutationFromPRF

#[derive(Clone, Debug, Serialize, Deserialize)]
pub enum KeySpec {
    Fresh([u8; 16]),
    /// the same bytes as an earlier key (another Input node: "two parties holding the same key")
    Copy(u16),
    /// an earlier key with one bit flipped
    Flip(u16, u8),
}

#[derive(Clone, Debug, Serialize, Deserialize)]
pub struct PNode {
    pub key: u16,
    pub iv: u64,
    pub out: u16,
}

#[derive(Clone, Debug, Serialize, Deserialize)]
pub enum Extra {
    /// evaluate a PRF node once more
    Repeat(u16),
    /// an unrelated Random / RandomPermutation call of a palette type
    Noise(u16),
}

#[derive(Clone, Debug, Serialize, Deserialize)]
pub struct Inst {
    pub seed: [u8; 16],
    /// sort keys: node i is evaluated in the order of (order[i], i)
    pub order: Vec<u16>,
    /// (insert position, extra step)
    pub extras: Vec<(u16, Extra)>,
}

#[derive(Clone, Debug, Serialize, Deserialize)]
pub struct PurityCase {
    pub keys: Vec<KeySpec>,
    pub palette: Vec<Out>,
    pub nodes: Vec<PNode>,
    pub insts: Vec<Inst>,
}

fn resolve_keys(specs: &[KeySpec]) -> Vec<[u8; 16]> {
    let mut out: Vec<[u8; 16]> = vec![];
    for (i, s) in specs.iter().enumerate() {
        let k = match s {
            KeySpec::Fresh(b) => *b,
            KeySpec::Copy(p) => {
                if i == 0 {
                    [0u8; 16]
                } else {
                    out[pick(*p, i)]
                }
            }
            KeySpec::Flip(p, bit) => {
                let mut k = if i == 0 { [0u8; 16] } else { out[pick(*p, i)] };
                let b = (*bit % 128) as usize;
                k[b / 8] ^= 1 << (b % 8);
                k
            }
        };
        out.push(k);
    }
    out
}

fn arb_iv() -> BoxedStrategy<u64> {
    prop_oneof![
        3 => Just(0u64),
        3 => Just(1u64),
        2 => Just(2u64),
        2 => Just(1u64 << 32),
        2 => Just(u64::MAX),
        1 => Just(u64::MAX - 1),
        1 => Just((1u64 << 32) + 1),
        1 => 0u64..6,
        3 => any::<u64>(),
    ]
    .boxed()
}

fn arb_key_spec() -> BoxedStrategy<KeySpec> {
    prop_oneof![
        4 => any::<[u8; 16]>().prop_map(KeySpec::Fresh),
        1 => Just(KeySpec::Fresh([0u8; 16])),
        1 => Just(KeySpec::Fresh([0xffu8; 16])),
        3 => any::<u16>().prop_map(KeySpec::Copy),
        3 => (any::<u16>(), any::<u8>()).prop_map(|(p, b)| KeySpec::Flip(p, b)),
    ]
    .boxed()
}

fn arb_inst() -> BoxedStrategy<Inst> {
    (
        any::<[u8; 16]>(),
        prop_oneof![1 => Just(vec![0u16; 12]), 5 => proptest::collection::vec(any::<u16>(), 12)],
        proptest::collection::vec(
            (
                any::<u16>(),
                prop_oneof![any::<u16>().prop_map(Extra::Repeat), any::<u16>().prop_map(Extra::Noise)],
            ),
            0..6,
        ),
    )
        .prop_map(|(seed, order, extras)| Inst { seed, order, extras })
        .boxed()
}

fn arb_purity_case(max_perm: u64) -> BoxedStrategy<PurityCase> {
    (
        proptest::collection::vec(arb_key_spec(), 1..5),
        proptest::collection::vec(arb_out(max_perm), 1..4),
        proptest::collection::vec(
            (any::<u16>(), arb_iv(), any::<u16>()).prop_map(|(key, iv, out)| PNode { key, iv, out }),
            1..13,
        ),
        proptest::collection::vec(arb_inst(), 2..5),
    )
        .prop_map(|(keys, palette, nodes, insts)| PurityCase {
            keys,
            palette,
            nodes,
            insts,
        })
        .boxed()
}

#[derive(Clone, Copy, PartialEq, Eq, Debug, Hash)]
enum Step {
    Node(usize),
    Noise(usize),
}

fn schedule(inst: &Inst, n_nodes: usize, n_pal: usize) -> Vec<Step> {
    let mut idx: Vec<usize> = (0..n_nodes).collect();
    idx.sort_by_key(|i| (inst.order.get(*i).copied().unwrap_or(0), *i));
    let mut steps: Vec<Step> = idx.into_iter().map(Step::Node).collect();
    for (at, e) in &inst.extras {
        let pos = pick(*at, steps.len() + 1);
        let s = match e {
            Extra::Repeat(p) => Step::Node(pick(*p, n_nodes)),
            Extra::Noise(p) => Step::Noise(pick(*p, n_pal)),
        };
        steps.insert(pos, s);
    }
    steps
}

struct Built {
    /// graphs and nodes only hold weak pointers to their context: keep it alive
    _ctx: Context,
    graph: Graph,
    key_nodes: Vec<Node>,
    prf_nodes: Vec<Node>,
    noise_nodes: Vec<Node>,
}

fn build_purity(c: &PurityCase, spec: &[(usize, u64, usize)]) -> Result<Built, String> {
    let e = |x: ciphercore_base::errors::Error| x.to_string();
    let ctx = create_context().map_err(e)?;
    let g = ctx.create_graph().map_err(e)?;
    let key_t = array_type(vec![128], BIT);
    let mut key_nodes = vec![];
    for _ in &c.keys {
        key_nodes.push(g.input(key_t.clone()).map_err(e)?);
    }
    let mut noise_nodes = vec![];
    for o in &c.palette {
        noise_nodes.push(match o {
            Out::Val(t) => g.random(t.clone()).map_err(e)?,
            Out::Perm(n) => g.random_permutation(*n).map_err(e)?,
        });
    }
    let mut prf_nodes = vec![];
    for (k, iv, o) in spec {
        let kn = key_nodes[*k].clone();
        prf_nodes.push(match &c.palette[*o] {
            Out::Val(t) => kn.prf(*iv, t.clone()).map_err(e)?,
            Out::Perm(n) => kn.permutation_from_prf(*iv, *n).map_err(e)?,
        });
    }
    // output = tuple of all PRF nodes, so that whole-graph evaluation is one more "order"
    let all = g.create_tuple(prf_nodes.clone()).map_err(e)?;
    g.set_output_node(all).map_err(e)?;
    g.finalize().map_err(e)?;
    ctx.set_main_graph(g.clone()).map_err(e)?;
    ctx.finalize().map_err(e)?;
    Ok(Built {
        _ctx: ctx,
        graph: g,
        key_nodes,
        prf_nodes,
        noise_nodes,
    })
}

pub fn oracle_purity(c: &PurityCase) -> Outcome {
    if c.keys.is_empty() || c.palette.is_empty() || c.nodes.is_empty() || c.insts.is_empty() {
        return Outcome::pass(false).label("degenerate");
    }
    let keys = resolve_keys(&c.keys);
    // (key index, iv, palette index) per node
    let spec: Vec<(usize, u64, usize)> = c
        .nodes
        .iter()
        .map(|n| (pick(n.key, keys.len()), n.iv, pick(n.out, c.palette.len())))
        .collect();
    let built = match catch(|| build_purity(c, &spec)) {
        Ok(Ok(b)) => b,
        Ok(Err(e)) => return Outcome::fail("graph-build", format!("in-domain graph rejected: {}", e)),
        Err(p) => return Outcome::fail("graph-build", format!("panic while building: {}", p)),
    };
    let _ = &built.key_nodes;
    let n_nodes = spec.len();
    let key_vals: Vec<Value> = keys.iter().map(|k| Value::from_bytes(k.to_vec())).collect();
    let kind = |i: usize| match c.palette[spec[i].2] {
        Out::Val(_) => "prf",
        Out::Perm(_) => "permprf",
    };

    let mut labels: BTreeSet<String> = BTreeSet::new();
    let mut canon: Vec<Option<VT>> = vec![None; n_nodes];
    let mut scheds: Vec<Vec<Step>> = vec![];
    for (ii, inst) in c.insts.iter().enumerate() {
        let mut ev = match SimpleEvaluator::new(Some(inst.seed)) {
            Ok(e) => e,
            Err(e) => return Outcome::fail("evaluator-new", e.to_string()),
        };
        let steps = schedule(inst, n_nodes, c.palette.len());
        let mut seen_in_inst = vec![false; n_nodes];
        for st in &steps {
            match *st {
                Step::Node(i) => {
                    let node = built.prf_nodes[i].clone();
                    let kv = key_vals[spec[i].0].clone();
                    let v = match catch(|| ev.evaluate_node(node, vec![kv])) {
                        Ok(Ok(v)) => v,
                        Ok(Err(e)) => {
                            return Outcome::fail(&format!("{}-error", kind(i)), format!("evaluate_node failed on node {}: {}", i, e))
                        }
                        Err(p) => return Outcome::fail(&format!("{}-panic", kind(i)), format!("evaluate_node panicked on node {}: {}", i, p)),
                    };
                    let o = &c.palette[spec[i].2];
                    if let Err((sig, msg)) = check_valid(&v, o) {
                        return Outcome::fail(&format!("{}-{}", kind(i), sig), format!("node {} (iv {}): {}", i, spec[i].1, msg));
                    }
                    let t = vt(&v);
                    match &canon[i] {
                        None => canon[i] = Some(t),
                        Some(c0) => {
                            if *c0 != t {
                                let how = if seen_in_inst[i] {
                                    "repeated evaluation in one evaluator instance"
                                } else {
                                    "evaluation in another evaluator instance / order"
                                };
                                return Outcome::fail(
                                    &format!("{}-impure", kind(i)),
                                    format!(
                                        "node {} (key #{}, iv {}, out {:?}) gave a different value on {} (instance {}): {} vs {}",
                                        i,
                                        spec[i].0,
                                        spec[i].1,
                                        o,
                                        how,
                                        ii,
                                        short(c0),
                                        short(&t)
                                    ),
                                );
                            }
                        }
                    }
                    if seen_in_inst[i] {
                        labels.insert("extra:repeat".into());
                    }
                    seen_in_inst[i] = true;
                }
                Step::Noise(p) => {
                    let node = built.noise_nodes[p].clone();
                    let nk = match c.palette[p] {
                        Out::Val(_) => "random",
                        Out::Perm(_) => "randperm",
                    };
                    let v = match catch(|| ev.evaluate_node(node, vec![])) {
                        Ok(Ok(v)) => v,
                        Ok(Err(e)) => return Outcome::fail(&format!("{}-error", nk), format!("evaluate_node failed: {}", e)),
                        Err(pn) => return Outcome::fail(&format!("{}-panic", nk), format!("evaluate_node panicked: {}", pn)),
                    };
                    if let Err((sig, msg)) = check_valid(&v, &c.palette[p]) {
                        return Outcome::fail(&format!("{}-{}", nk, sig), msg);
                    }
                    labels.insert(format!("extra:{}", nk));
                }
            }
        }
        scheds.push(steps);
    }

    // one more order: the stock whole-graph evaluation in a fresh instance (it also runs the Random nodes)
    {
        let seed = c.insts[0].seed;
        let g = built.graph.clone();
        let kv = key_vals.clone();
        let r = catch(|| SimpleEvaluator::new(Some(seed)).and_then(|mut ev| ev.evaluate_graph(g, kv)));
        let v = match r {
            Ok(Ok(v)) => v,
            Ok(Err(e)) => return Outcome::fail("graph-eval-error", format!("evaluate_graph failed: {}", e)),
            Err(p) => return Outcome::fail("graph-eval-panic", format!("evaluate_graph panicked: {}", p)),
        };
        match vt(&v) {
            VT::V(parts) if parts.len() == n_nodes => {
                for (i, p) in parts.iter().enumerate() {
                    if canon[i].as_ref() != Some(p) {
                        return Outcome::fail(
                            &format!("{}-impure", kind(i)),
                            format!(
                                "node {} (key #{}, iv {}): evaluate_graph gives {} but evaluate_node gave {}",
                                i,
                                spec[i].0,
                                spec[i].1,
                                short(p),
                                short(canon[i].as_ref().unwrap())
                            ),
                        );
                    }
                }
            }
            other => return Outcome::fail("graph-eval-shape", format!("output tuple of {} PRF nodes came back as {}", n_nodes, short(&other))),
        }
    }

    // streams: distinct (key bytes, iv)
    let mut streams: Vec<([u8; 16], u64)> = vec![];
    let stream_of: Vec<usize> = spec
        .iter()
        .map(|(k, iv, _)| {
            let id = (keys[*k], *iv);
            match streams.iter().position(|s| *s == id) {
                Some(p) => p,
                None => {
                    streams.push(id);
                    streams.len() - 1
                }
            }
        })
        .collect();

    // (2) separation / equal inputs => equal outputs
    let mut sep_pairs = 0u32;
    let mut eq_pairs = 0u32;
    for i in 0..n_nodes {
        for j in (i + 1)..n_nodes {
            let (oi, oj) = (&c.palette[spec[i].2], &c.palette[spec[j].2]);
            if oi != oj {
                continue;
            }
            let (a, b) = (canon[i].as_ref().unwrap(), canon[j].as_ref().unwrap());
            if stream_of[i] == stream_of[j] {
                eq_pairs += 1;
                if spec[i].0 != spec[j].0 {
                    labels.insert("same-key-two-inputs".into());
                }
                if a != b {
                    return Outcome::fail(
                        &format!("{}-same-input-differs", kind(i)),
                        format!(
                            "nodes {} and {} have the same key bytes, iv {} and output {:?} but values differ: {} vs {}",
                            i,
                            j,
                            spec[i].1,
                            oi,
                            short(a),
                            short(b)
                        ),
                    );
                }
            } else if out_separable(oi) {
                sep_pairs += 1;
                if a == b {
                    let why = if keys[spec[i].0] == keys[spec[j].0] {
                        "same key, different counter"
                    } else if spec[i].1 == spec[j].1 {
                        "different key, same counter"
                    } else {
                        "different key and counter"
                    };
                    return Outcome::fail(
                        &format!("{}-collision", kind(i)),
                        format!(
                            "nodes {} (key #{}, iv {}) and {} (key #{}, iv {}) [{}] give the same value of {:?}: {}",
                            i,
                            spec[i].0,
                            spec[i].1,
                            j,
                            spec[j].0,
                            spec[j].1,
                            why,
                            oi,
                            short(a)
                        ),
                    );
                }
                if keys[spec[i].0] == keys[spec[j].0] {
                    labels.insert("sep:same-key-other-iv".into());
                } else if spec[i].1 == spec[j].1 {
                    labels.insert("sep:other-key-same-iv".into());
                }
            }
        }
    }
    // (2') unrelated: no 16-byte window of fully random bytes occurs twice inside one output or in two
    // outputs of different (key, counter) streams (probability <= pairs * 2^-128 for independent values)
    let mut windows: HashMap<[u8; 16], (usize, usize)> = HashMap::new();
    let mut n_windows = 0usize;
    for i in 0..n_nodes {
        if let Out::Val(t) = &c.palette[spec[i].2] {
            let mut regions = vec![];
            let mut cur = vec![];
            full_regions(canon[i].as_ref().unwrap(), t, &mut cur, &mut regions);
            regions.push(cur);
            for r in &regions {
                if r.len() < 16 {
                    continue;
                }
                for off in 0..=(r.len() - 16) {
                    let mut w = [0u8; 16];
                    w.copy_from_slice(&r[off..off + 16]);
                    n_windows += 1;
                    match windows.get(&w) {
                        None => {
                            windows.insert(w, (stream_of[i], i));
                        }
                        Some((s, n)) => {
                            if *n == i {
                                return Outcome::fail(
                                    "prf-self-overlap",
                                    format!("node {} (iv {}, type {}): the 16 bytes {:?} occur twice in one output", i, spec[i].1, t, w),
                                );
                            } else if *s != stream_of[i] {
                                return Outcome::fail(
                                    "prf-overlap",
                                    format!(
                                        "nodes {} (key #{}, iv {}) and {} (key #{}, iv {}) share the 16 output bytes {:?}",
                                        n, spec[*n].0, spec[*n].1, i, spec[i].0, spec[i].1, w
                                    ),
                                );
                            }
                        }
                    }
                }
            }
        }
    }

    // labels
    let distinct_orders = scheds.iter().collect::<BTreeSetVec>().len();
    labels.insert(format!("insts:{}", c.insts.len()));
    labels.insert(format!("orders:{}", distinct_orders.min(4)));
    labels.insert(format!("nodes:{}", match n_nodes { 1 => "1", 2..=4 => "2-4", 5..=8 => "5-8", _ => "9-12" }));
    for (i, (_, iv, o)) in spec.iter().enumerate() {
        labels.insert(iv_class(*iv).into());
        match &c.palette[*o] {
            Out::Val(t) => {
                labels.insert("kind:prf".into());
                let b = stream_bytes(t);
                labels.insert(size_class(b).into());
                if b > 64 {
                    labels.insert("cross:buffer-growth".into());
                }
                if !is_leaf(t) {
                    labels.insert("type:nested".into());
                } else {
                    labels.insert(format!("st:{}", leaf_st(t)));
                }
                if has_ragged_bits(t) {
                    labels.insert("type:ragged-bits".into());
                }
            }
            Out::Perm(n) => {
                labels.insert("kind:permprf".into());
                labels.insert(
                    match *n {
                        1 => "perm:n=1",
                        2..=5 => "perm:n=2-5",
                        6..=20 => "perm:n=6-20",
                        21..=256 => "perm:n=21-256",
                        _ => "perm:n>=257",
                    }
                    .into(),
                );
            }
        }
        let _ = i;
    }
    for k in &c.keys {
        match k {
            KeySpec::Copy(_) => {
                labels.insert("keys:copy".into());
            }
            KeySpec::Flip(_, _) => {
                labels.insert("keys:one-bit-flip".into());
            }
            _ => {}
        }
    }
    if sep_pairs > 0 {
        labels.insert("separation-compared".into());
    }
    if eq_pairs > 0 {
        labels.insert("equal-inputs-compared".into());
    }
    if n_windows > 0 {
        labels.insert("windows-compared".into());
    }
    let nontrivial = c.insts.len() >= 2 && distinct_orders >= 2;
    Outcome::pass(nontrivial).labels(labels)
}

/// tiny helper so that `collect` can count distinct schedules
struct BTreeSetVec(BTreeSet<Vec<(u8, usize)>>);
impl BTreeSetVec {
    fn len(&self) -> usize {
        self.0.len()
    }
}
impl<'a> FromIterator<&'a Vec<Step>> for BTreeSetVec {
    fn from_iter<I: IntoIterator<Item = &'a Vec<Step>>>(it: I) -> Self {
        BTreeSetVec(
            it.into_iter()
                .map(|s| {
                    s.iter()
                        .map(|x| match x {
                            Step::Node(i) => (0u8, *i),
                            Step::Noise(i) => (1u8, *i),
                        })
                        .collect()
                })
                .collect(),
        )
    }
}

// ---------------------------------------------------------------------------------------------
// Random / RandomPermutation through seeded evaluators: validity, replay, seed separation

#[derive(Clone, Debug, Serialize, Deserialize)]
pub struct EvalRandCase {
    pub seed: [u8; 16],
    pub other: [u8; 16],
    pub palette: Vec<Out>,
    pub seq: Vec<u16>,
}

fn arb_eval_rand_case(max_perm: u64) -> BoxedStrategy<EvalRandCase> {
    (
        any::<[u8; 16]>(),
        any::<[u8; 16]>(),
        proptest::collection::vec(arb_out(max_perm), 1..4),
        proptest::collection::vec(any::<u16>(), 1..10),
    )
        .prop_map(|(seed, other, palette, seq)| EvalRandCase {
            seed,
            other,
            palette,
            seq,
        })
        .boxed()
}

pub fn oracle_eval_random(c: &EvalRandCase) -> Outcome {
    if c.palette.is_empty() || c.seq.is_empty() {
        return Outcome::pass(false).label("degenerate");
    }
    let build = || -> Result<Vec<Node>, String> {
        let e = |x: ciphercore_base::errors::Error| x.to_string();
        let ctx = create_context().map_err(e)?;
        let g = ctx.create_graph().map_err(e)?;
        let mut ns = vec![];
        for o in &c.palette {
            ns.push(match o {
                Out::Val(t) => g.random(t.clone()).map_err(e)?,
                Out::Perm(n) => g.random_permutation(*n).map_err(e)?,
            });
        }
        g.set_output_node(ns[0].clone()).map_err(e)?;
        g.finalize().map_err(e)?;
        ctx.set_main_graph(g).map_err(e)?;
        ctx.finalize().map_err(e)?;
        Ok(ns)
    };
    let nodes = match catch(build) {
        Ok(Ok(n)) => n,
        Ok(Err(e)) => return Outcome::fail("graph-build", format!("in-domain graph rejected: {}", e)),
        Err(p) => return Outcome::fail("graph-build", format!("panic while building: {}", p)),
    };
    let picks: Vec<usize> = c.seq.iter().map(|p| pick(*p, c.palette.len())).collect();
    let run = |seed: [u8; 16]| -> Result<Vec<VT>, Outcome> {
        let mut ev = SimpleEvaluator::new(Some(seed)).map_err(|e| Outcome::fail("evaluator-new", e.to_string()))?;
        let mut out = vec![];
        for p in &picks {
            let nk = match c.palette[*p] {
                Out::Val(_) => "random",
                Out::Perm(_) => "randperm",
            };
            let node = nodes[*p].clone();
            let v = match catch(|| ev.evaluate_node(node, vec![])) {
                Ok(Ok(v)) => v,
                Ok(Err(e)) => return Err(Outcome::fail(&format!("{}-error", nk), format!("evaluate_node failed: {}", e))),
                Err(pn) => return Err(Outcome::fail(&format!("{}-panic", nk), format!("evaluate_node panicked: {}", pn))),
            };
            if let Err((sig, msg)) = check_valid(&v, &c.palette[*p]) {
                return Err(Outcome::fail(&format!("{}-{}", nk, sig), msg));
            }
            out.push(vt(&v));
        }
        Ok(out)
    };
    let a = match run(c.seed) {
        Ok(x) => x,
        Err(o) => return o,
    };
    let b = match run(c.seed) {
        Ok(x) => x,
        Err(o) => return o,
    };
    if a != b {
        let i = a.iter().zip(b.iter()).position(|(x, y)| x != y).unwrap_or(0);
        return Outcome::fail(
            "evaluator-replay",
            format!("two evaluators with seed {:?} differ at call {}: {} vs {}", c.seed, i, short(&a[i]), short(&b[i])),
        );
    }
    let any_sep = picks.iter().any(|p| out_separable(&c.palette[*p]));
    let mut labels: BTreeSet<String> = BTreeSet::new();
    if c.other != c.seed && any_sep {
        let d = match run(c.other) {
            Ok(x) => x,
            Err(o) => return o,
        };
        for (i, p) in picks.iter().enumerate() {
            if out_separable(&c.palette[*p]) && a[i] == d[i] {
                return Outcome::fail(
                    "evaluator-seed-collision",
                    format!("evaluators with seeds {:?} and {:?} give the same value at call {}: {}", c.seed, c.other, i, short(&a[i])),
                );
            }
        }
        labels.insert("seed-separation-compared".into());
    }
    // successive draws of one node are fresh
    for i in 0..picks.len() {
        for j in (i + 1)..picks.len() {
            if picks[i] == picks[j] && out_separable(&c.palette[picks[i]]) {
                if a[i] == a[j] {
                    return Outcome::fail(
                        "random-repeats",
                        format!("calls {} and {} of the same Random node returned the same value {}", i, j, short(&a[i])),
                    );
                }
                labels.insert("fresh-draws-compared".into());
            }
        }
    }
    let mut total = 0u64;
    let mut ragged = false;
    for p in &picks {
        match &c.palette[*p] {
            Out::Val(t) => {
                labels.insert("kind:random".into());
                total += stream_bytes(t);
                labels.insert(size_class(stream_bytes(t)).into());
                if has_ragged_bits(t) {
                    ragged = true;
                    labels.insert("type:ragged-bits".into());
                }
                if !is_leaf(t) {
                    labels.insert("type:nested".into());
                }
            }
            Out::Perm(n) => {
                labels.insert("kind:randperm".into());
                total += 8 * n.saturating_sub(1);
                labels.insert(if *n <= 5 { "perm:n<=5" } else if *n <= 20 { "perm:n=6-20" } else { "perm:n>=21" }.into());
            }
        }
    }
    if total > 512 {
        labels.insert("cross:512-buffer".into());
    }
    Outcome::pass(total > 512 || ragged).labels(labels)
}

// ---------------------------------------------------------------------------------------------
// (4) PRNG replay

#[derive(Clone, Debug, Serialize, Deserialize)]
pub enum Req {
    Bytes(u16),
    Val(Type),
    Range(u64),
    Full,
}

#[derive(Clone, Debug, Serialize, Deserialize)]
pub struct PrngCase {
    pub seed: [u8; 16],
    pub other: [u8; 16],
    pub reqs: Vec<Req>,
}

fn arb_modulus() -> BoxedStrategy<u64> {
    prop_oneof![
        3 => proptest::sample::select(vec![1u64, 2, 3, 5, 6, 7]),
        3 => (0u32..64).prop_map(|k| 1u64 << k),
        2 => (1u32..64).prop_map(|k| (1u64 << k) + 1),
        2 => (1u32..=64).prop_map(|k| if k == 64 { u64::MAX } else { (1u64 << k) - 1 }),
        3 => Just((1u64 << 63) + 1),
        2 => Just(u64::MAX),
        2 => Just(1u64 << 63),
        1 => Just((1u64 << 63) + (1u64 << 62)),
        2 => 1u64..300,
        2 => any::<u64>().prop_map(|x| x.max(1)),
        1 => (1u64 << 62)..=u64::MAX,
    ]
    .boxed()
}

fn arb_req() -> BoxedStrategy<Req> {
    prop_oneof![
        2 => prop_oneof![3 => 0u16..40, 1 => proptest::sample::select(vec![511u16, 512, 513, 1024, 1500])].prop_map(Req::Bytes),
        2 => arb_sized_leaf().prop_map(Req::Val),
        1 => arb_type(2).prop_map(Req::Val),
        1 => arb_nested_big().prop_map(Req::Val),
        3 => arb_modulus().prop_map(Req::Range),
        1 => Just(Req::Full),
    ]
    .boxed()
}

fn arb_prng_case() -> BoxedStrategy<PrngCase> {
    (any::<[u8; 16]>(), any::<[u8; 16]>(), proptest::collection::vec(arb_req(), 1..12))
        .prop_map(|(seed, other, reqs)| PrngCase { seed, other, reqs })
        .boxed()
}

#[derive(Clone, PartialEq, Eq, Debug)]
enum Ans {
    Bytes(Vec<u8>),
    Val(VT),
    Int(u64),
}

fn prng_do(g: &mut PRNG, r: &Req) -> Result<Ans, Outcome> {
    let res = catch(|| -> Result<Ans, String> {
        Ok(match r {
            Req::Bytes(n) => Ans::Bytes(g.get_random_bytes(*n as usize).map_err(|e| e.to_string())?),
            Req::Val(t) => {
                let v = g.get_random_value(t.clone()).map_err(|e| e.to_string())?;
                if let Err((sig, msg)) = check_valid(&v, &Out::Val(t.clone())) {
                    return Err(format!("!{}!{}", sig, msg));
                }
                Ans::Val(vt(&v))
            }
            Req::Range(m) => Ans::Int(g.get_random_in_range(Some(*m)).map_err(|e| e.to_string())?),
            Req::Full => Ans::Int(g.get_random_in_range(None).map_err(|e| e.to_string())?),
        })
    });
    match res {
        Ok(Ok(a)) => {
            match (&a, r) {
                (Ans::Bytes(b), Req::Bytes(n)) if b.len() != *n as usize => {
                    return Err(Outcome::fail("prng-bytes-length", format!("get_random_bytes({}) returned {} bytes", n, b.len())))
                }
                (Ans::Int(x), Req::Range(m)) if x >= m => {
                    return Err(Outcome::fail("prng-out-of-range", format!("get_random_in_range({}) returned {}", m, x)))
                }
                _ => {}
            }
            Ok(a)
        }
        Ok(Err(e)) => {
            if let Some(rest) = e.strip_prefix('!') {
                let mut it = rest.splitn(2, '!');
                let sig = it.next().unwrap_or("invalid");
                Err(Outcome::fail(&format!("prng-value-{}", sig), it.next().unwrap_or("").to_string()))
            } else {
                Err(Outcome::fail("prng-error", format!("request {:?} failed: {}", r, e)))
            }
        }
        Err(p) => Err(Outcome::fail("prng-panic", format!("request {:?} panicked: {}", r, p))),
    }
}

fn new_prng(seed: [u8; 16]) -> Result<PRNG, Outcome> {
    PRNG::new(Some(seed)).map_err(|e| Outcome::fail("prng-new", e.to_string()))
}

pub fn oracle_prng_replay(c: &PrngCase) -> Outcome {
    macro_rules! tri {
        ($e:expr) => {
            match $e {
                Ok(x) => x,
                Err(o) => return o,
            }
        };
    }
    let mut a = tri!(new_prng(c.seed));
    let mut b = tri!(new_prng(c.seed));
    let mut labels: BTreeSet<String> = BTreeSet::new();
    let mut total = 0u64;
    let mut ragged = false;
    let mut tape_a: Vec<Ans> = vec![];
    for (i, r) in c.reqs.iter().enumerate() {
        let x = tri!(prng_do(&mut a, r));
        let y = tri!(prng_do(&mut b, r));
        if x != y {
            return Outcome::fail(
                "prng-replay",
                format!("two PRNGs with seed {:?} differ at request {} ({:?}): {:?} vs {:?}", c.seed, i, r, x, y),
            );
        }
        match r {
            Req::Bytes(n) => {
                total += *n as u64;
                labels.insert("req:bytes".into());
            }
            Req::Val(t) => {
                total += stream_bytes(t);
                labels.insert("req:value".into());
                labels.insert(size_class(stream_bytes(t)).into());
                if has_ragged_bits(t) {
                    ragged = true;
                    labels.insert("type:ragged-bits".into());
                }
                if !is_leaf(t) {
                    labels.insert("type:nested".into());
                }
            }
            Req::Range(_) => {
                total += 8;
                labels.insert("req:range".into());
            }
            Req::Full => {
                total += 8;
                labels.insert("req:full".into());
            }
        }
        tape_a.push(x);
    }
    // the generators are still in step
    let ta = tri!(prng_do(&mut a, &Req::Bytes(16)));
    let tb = tri!(prng_do(&mut b, &Req::Bytes(16)));
    if ta != tb {
        return Outcome::fail("prng-replay", format!("two PRNGs with seed {:?} are out of step after {} requests", c.seed, c.reqs.len()));
    }
    if c.other != c.seed {
        let mut d = tri!(new_prng(c.other));
        for r in &c.reqs {
            let _ = tri!(prng_do(&mut d, r));
        }
        let td = tri!(prng_do(&mut d, &Req::Bytes(16)));
        if ta == td {
            return Outcome::fail(
                "prng-seed-collision",
                format!("PRNGs with seeds {:?} and {:?} produce the same 16 bytes after the same requests", c.seed, c.other),
            );
        }
        labels.insert("seed-separation-compared".into());
    }
    if total > 512 {
        labels.insert("cross:512-buffer".into());
    }
    Outcome::pass(total > 512 || ragged).labels(labels)
}

// ---------------------------------------------------------------------------------------------
// (5) bias, exact: get_random_in_range against the reference rejection sampler on a twin generator

#[derive(Clone, Debug, Serialize, Deserialize)]
pub enum RReq {
    Range(u64),
    Full,
    Bytes(u16),
}

#[derive(Clone, Debug, Serialize, Deserialize)]
pub struct RangeCase {
    pub seed: [u8; 16],
    pub reqs: Vec<RReq>,
}

fn arb_range_case() -> BoxedStrategy<RangeCase> {
    (
        any::<[u8; 16]>(),
        proptest::collection::vec(
            prop_oneof![
                10 => arb_modulus().prop_map(RReq::Range),
                1 => Just(RReq::Full),
                1 => prop_oneof![3 => 0u16..20, 1 => 500u16..520].prop_map(RReq::Bytes),
            ],
            1..40,
        ),
    )
        .prop_map(|(seed, reqs)| RangeCase { seed, reqs })
        .boxed()
}

fn twin_u64(r: &mut PRNG) -> Result<u64, Outcome> {
    match catch(|| r.get_random_bytes(8)) {
        Ok(Ok(b)) if b.len() == 8 => {
            let mut le = [0u8; 8];
            le.copy_from_slice(&b);
            Ok(u64::from_le_bytes(le))
        }
        Ok(Ok(b)) => Err(Outcome::fail("prng-bytes-length", format!("get_random_bytes(8) returned {} bytes", b.len()))),
        Ok(Err(e)) => Err(Outcome::fail("prng-error", e.to_string())),
        Err(p) => Err(Outcome::fail("prng-panic", p)),
    }
}

pub fn oracle_range(c: &RangeCase) -> Outcome {
    macro_rules! tri {
        ($e:expr) => {
            match $e {
                Ok(x) => x,
                Err(o) => return o,
            }
        };
    }
    let mut a = tri!(new_prng(c.seed));
    let mut twin = tri!(new_prng(c.seed));
    let mut labels: BTreeSet<String> = BTreeSet::new();
    let mut rejections = 0u64;
    let mut non_pow2 = false;
    for (i, r) in c.reqs.iter().enumerate() {
        match r {
            RReq::Range(m) => {
                let m = (*m).max(1);
                // reference: accept r iff r < floor(2^64 / m) * m, output r mod m
                let zone: u128 = ((1u128 << 64) / m as u128) * m as u128;
                let mut want;
                let mut guard = 0;
                loop {
                    let x = tri!(twin_u64(&mut twin));
                    want = x % m;
                    if (x as u128) < zone {
                        break;
                    }
                    rejections += 1;
                    guard += 1;
                    if guard > 4096 {
                        return Outcome::pass(false).label("reference-sampler-gave-up");
                    }
                }
                let got = match tri!(prng_do(&mut a, &Req::Range(m))) {
                    Ans::Int(x) => x,
                    _ => unreachable!(),
                };
                if got != want {
                    return Outcome::fail(
                        "range-sampler-mismatch",
                        format!(
                            "request {}: get_random_in_range({}) = {} but the reference rejection sampler on the twin stream gives {} (seed {:?})",
                            i, m, got, want, c.seed
                        ),
                    );
                }
                if !m.is_power_of_two() {
                    non_pow2 = true;
                }
                labels.insert(
                    if m <= 7 {
                        "m:<=7"
                    } else if m.is_power_of_two() {
                        if m >= 1 << 56 {
                            "m:2^k,k>=56"
                        } else {
                            "m:2^k,k<56"
                        }
                    } else if m == (1 << 63) + 1 {
                        "m:2^63+1"
                    } else if m == u64::MAX {
                        "m:2^64-1"
                    } else if (m - 1).is_power_of_two() || (m + 1).is_power_of_two() {
                        "m:2^k+-1"
                    } else if m >= 1 << 62 {
                        "m:>=2^62"
                    } else {
                        "m:other"
                    }
                    .into(),
                );
            }
            RReq::Full => {
                let want = tri!(twin_u64(&mut twin));
                let got = match tri!(prng_do(&mut a, &Req::Full)) {
                    Ans::Int(x) => x,
                    _ => unreachable!(),
                };
                if got != want {
                    return Outcome::fail(
                        "range-full-mismatch",
                        format!("request {}: get_random_in_range(None) = {} but the next 8 twin bytes read {}", i, got, want),
                    );
                }
                labels.insert("m:none".into());
            }
            RReq::Bytes(n) => {
                let x = tri!(prng_do(&mut a, &Req::Bytes(*n)));
                let y = tri!(prng_do(&mut twin, &Req::Bytes(*n)));
                if x != y {
                    return Outcome::fail("prng-replay", format!("request {}: get_random_bytes({}) differs between twins", i, n));
                }
                labels.insert("req:bytes".into());
            }
        }
    }
    // same number of bytes consumed
    let ta = tri!(prng_do(&mut a, &Req::Bytes(16)));
    let tb = tri!(prng_do(&mut twin, &Req::Bytes(16)));
    if ta != tb {
        return Outcome::fail(
            "range-consumption-mismatch",
            format!(
                "after {:?} the generator is not where the reference sampler left its twin (it consumed a different number of bytes)",
                c.reqs.iter().take(12).collect::<Vec<_>>()
            ),
        );
    }
    if rejections > 0 {
        labels.insert("reference-rejected>=1".into());
    }
    Outcome::pass(rejections > 0 || non_pow2).labels(labels)
}

// ---------------------------------------------------------------------------------------------
// (6) bias, statistical

#[derive(Clone, Debug, Serialize, Deserialize)]
pub enum ChiKind {
    /// PRNG::get_random_in_range(m), cells 0..m
    Range(u64),
    /// PermutationFromPRF(iv, n) over `draws` keys (seed + i), cells = the n! permutations
    PermKeys(u64, u64),
    /// PermutationFromPRF(iv0 + i, n) for one key, cells = the n! permutations
    PermIvs(u64, u64),
    /// RandomPermutation(n) drawn `draws` times from one seeded evaluator
    RandPerm(u64),
    /// PRF(iv0 + i, UINT8 scalar) for one key, cells = the low `bits` bits (bits in 1..=4)
    PrfSmall(u64, u8),
}

#[derive(Clone, Debug, Serialize, Deserialize)]
pub struct ChiCase {
    pub kind: ChiKind,
    pub seed: [u8; 16],
    pub draws: u32,
}

fn arb_chi_case() -> BoxedStrategy<ChiCase> {
    let iv = prop_oneof![Just(0u64), Just(1u64), Just(u64::MAX - 100_000), any::<u64>().prop_map(|x| x >> 1)];
    let kind = prop_oneof![
        4 => proptest::sample::select(vec![2u64, 3, 5, 6, 7, 8, 10, 12, 16, 31, 32, 33]).prop_map(ChiKind::Range),
        3 => (iv.clone(), 3u64..=4).prop_map(|(iv, n)| ChiKind::PermKeys(iv, n)),
        2 => (iv.clone(), 3u64..=4).prop_map(|(iv, n)| ChiKind::PermIvs(iv, n)),
        3 => (3u64..=4).prop_map(ChiKind::RandPerm),
        1 => (iv, 1u8..=4).prop_map(|(iv, b)| ChiKind::PrfSmall(iv, b)),
    ];
    (kind, any::<[u8; 16]>().no_shrink())
        .prop_map(|(kind, seed)| {
            let draws = match kind {
                ChiKind::Range(_) | ChiKind::PrfSmall(_, _) => 60_000,
                _ => 48_000,
            };
            ChiCase { kind, seed, draws }
        })
        .boxed()
}

fn chi_threshold(df: f64) -> f64 {
    df + 2.0 * (df * CHI_X).sqrt() + 2.0 * CHI_X
}

fn factorial(n: u64) -> u64 {
    (1..=n).product()
}

/// index of a permutation of 0..n in lexicographic order (n <= 8)
fn perm_rank(p: &[u128]) -> usize {
    let n = p.len();
    let mut r = 0usize;
    for i in 0..n {
        let smaller = p[i + 1..].iter().filter(|x| **x < p[i]).count();
        r += smaller * factorial((n - 1 - i) as u64) as usize;
    }
    r
}

fn perm_cell(v: &Value, n: u64, what: &str) -> Result<usize, Outcome> {
    if let Err((sig, msg)) = check_valid(v, &Out::Perm(n)) {
        return Err(Outcome::fail(&format!("{}-{}", what, sig), msg));
    }
    match decode(v, &array_type(vec![n], UINT64)) {
        Ok(HVal::A(xs)) => Ok(perm_rank(&xs)),
        _ => Err(Outcome::fail(&format!("{}-bad-layout", what), "cannot decode".into())),
    }
}

pub fn oracle_chi(c: &ChiCase) -> Outcome {
    macro_rules! tri {
        ($e:expr) => {
            match $e {
                Ok(x) => x,
                Err(o) => return o,
            }
        };
    }
    let draws = c.draws.max(1) as usize;
    let estr = |x: ciphercore_base::errors::Error| x.to_string();
    let (cells, what): (Vec<u64>, String) = match &c.kind {
        ChiKind::Range(m) => {
            let m = (*m).clamp(2, 64);
            let mut g = tri!(new_prng(c.seed));
            let mut cells = vec![0u64; m as usize];
            for _ in 0..draws {
                match tri!(prng_do(&mut g, &Req::Range(m))) {
                    Ans::Int(x) => cells[x as usize] += 1,
                    _ => unreachable!(),
                }
            }
            (cells, format!("get_random_in_range({})", m))
        }
        ChiKind::PermKeys(iv, n) => {
            let n = (*n).clamp(2, 5);
            let built = catch(|| -> Result<(Node, Node), String> {
                let ctx = create_context().map_err(estr)?;
                let g = ctx.create_graph().map_err(estr)?;
                let k = g.input(array_type(vec![128], BIT)).map_err(estr)?;
                let p = k.permutation_from_prf(*iv, n).map_err(estr)?;
                Ok((k, p))
            });
            let (_k, p) = match built {
                Ok(Ok(x)) => x,
                other => return Outcome::fail("graph-build", format!("{:?}", other.map(|r| r.map(|_| ())))),
            };
            let mut cells = vec![0u64; factorial(n) as usize];
            let base = u64::from_le_bytes(c.seed[..8].try_into().unwrap());
            let mut ev = tri!(SimpleEvaluator::new(Some(c.seed)).map_err(|e| Outcome::fail("evaluator-new", e.to_string())));
            for i in 0..draws {
                if i % 4096 == 0 {
                    // bound the per-key cache of one instance; a fresh instance must not change anything
                    ev = tri!(SimpleEvaluator::new(Some(c.seed)).map_err(|e| Outcome::fail("evaluator-new", e.to_string())));
                }
                let mut key = c.seed;
                key[..8].copy_from_slice(&base.wrapping_add(i as u64).to_le_bytes());
                let node = p.clone();
                let v = match catch(|| ev.evaluate_node(node, vec![Value::from_bytes(key.to_vec())])) {
                    Ok(Ok(v)) => v,
                    other => return Outcome::fail("permprf-error", format!("{:?}", other.map(|r| r.map(|_| ()).map_err(|e| e.to_string())))),
                };
                cells[tri!(perm_cell(&v, n, "permprf"))] += 1;
            }
            (cells, format!("PermutationFromPRF(iv={}, n={}) over {} keys", iv, n, draws))
        }
        ChiKind::PermIvs(iv0, n) => {
            let n = (*n).clamp(2, 5);
            let iv0 = (*iv0).min(u64::MAX - draws as u64);
            let built = catch(|| -> Result<Vec<Node>, String> {
                let ctx = create_context().map_err(estr)?;
                let g = ctx.create_graph().map_err(estr)?;
                let k = g.input(array_type(vec![128], BIT)).map_err(estr)?;
                let mut ps = Vec::with_capacity(draws);
                for i in 0..draws {
                    ps.push(k.permutation_from_prf(iv0 + i as u64, n).map_err(estr)?);
                }
                Ok(ps)
            });
            let ps = match built {
                Ok(Ok(x)) => x,
                other => return Outcome::fail("graph-build", format!("{:?}", other.map(|r| r.map(|_| ())))),
            };
            let mut cells = vec![0u64; factorial(n) as usize];
            let mut ev = tri!(SimpleEvaluator::new(Some(c.seed)).map_err(|e| Outcome::fail("evaluator-new", e.to_string())));
            let key = Value::from_bytes(c.seed.to_vec());
            for p in ps {
                let v = match catch(|| ev.evaluate_node(p, vec![key.clone()])) {
                    Ok(Ok(v)) => v,
                    other => return Outcome::fail("permprf-error", format!("{:?}", other.map(|r| r.map(|_| ()).map_err(|e| e.to_string())))),
                };
                cells[tri!(perm_cell(&v, n, "permprf"))] += 1;
            }
            (cells, format!("PermutationFromPRF(iv={}.., n={}) over {} counters", iv0, n, draws))
        }
        ChiKind::RandPerm(n) => {
            let n = (*n).clamp(2, 5);
            let built = catch(|| -> Result<Node, String> {
                let ctx = create_context().map_err(estr)?;
                let g = ctx.create_graph().map_err(estr)?;
                g.random_permutation(n).map_err(estr)
            });
            let p = match built {
                Ok(Ok(x)) => x,
                other => return Outcome::fail("graph-build", format!("{:?}", other.map(|r| r.map(|_| ())))),
            };
            let mut cells = vec![0u64; factorial(n) as usize];
            let mut ev = tri!(SimpleEvaluator::new(Some(c.seed)).map_err(|e| Outcome::fail("evaluator-new", e.to_string())));
            for _ in 0..draws {
                let node = p.clone();
                let v = match catch(|| ev.evaluate_node(node, vec![])) {
                    Ok(Ok(v)) => v,
                    other => return Outcome::fail("randperm-error", format!("{:?}", other.map(|r| r.map(|_| ()).map_err(|e| e.to_string())))),
                };
                cells[tri!(perm_cell(&v, n, "randperm"))] += 1;
            }
            (cells, format!("RandomPermutation({}) x {}", n, draws))
        }
        ChiKind::PrfSmall(iv0, b) => {
            let b = (*b).clamp(1, 4) as u32;
            let iv0 = (*iv0).min(u64::MAX - draws as u64);
            let built = catch(|| -> Result<Vec<Node>, String> {
                let ctx = create_context().map_err(estr)?;
                let g = ctx.create_graph().map_err(estr)?;
                let k = g.input(array_type(vec![128], BIT)).map_err(estr)?;
                let mut ps = Vec::with_capacity(draws);
                for i in 0..draws {
                    ps.push(k.prf(iv0 + i as u64, array_type(vec![b as u64], BIT)).map_err(estr)?);
                }
                Ok(ps)
            });
            let ps = match built {
                Ok(Ok(x)) => x,
                other => return Outcome::fail("graph-build", format!("{:?}", other.map(|r| r.map(|_| ())))),
            };
            let mut cells = vec![0u64; 1usize << b];
            let mut ev = tri!(SimpleEvaluator::new(Some(c.seed)).map_err(|e| Outcome::fail("evaluator-new", e.to_string())));
            let key = Value::from_bytes(c.seed.to_vec());
            let t = array_type(vec![b as u64], BIT);
            for p in ps {
                let v = match catch(|| ev.evaluate_node(p, vec![key.clone()])) {
                    Ok(Ok(v)) => v,
                    other => return Outcome::fail("prf-error", format!("{:?}", other.map(|r| r.map(|_| ()).map_err(|e| e.to_string())))),
                };
                if let Err((sig, msg)) = check_valid(&v, &Out::Val(t.clone())) {
                    return Outcome::fail(&format!("prf-{}", sig), msg);
                }
                let byte = match vt(&v) {
                    VT::B(x) => x[0],
                    _ => unreachable!(),
                };
                cells[byte as usize] += 1;
            }
            (cells, format!("PRF(iv={}.., BIT[{}]) over {} counters", iv0, b, draws))
        }
    };
    let k = cells.len() as f64;
    let expect = draws as f64 / k;
    let chi: f64 = cells.iter().map(|x| (*x as f64 - expect).powi(2) / expect).sum();
    let thr = chi_threshold(k - 1.0);
    if chi > thr {
        return Outcome::fail(
            &format!(
                "chi-{}",
                match c.kind {
                    ChiKind::Range(_) => "range",
                    ChiKind::PermKeys(_, _) | ChiKind::PermIvs(_, _) => "permprf",
                    ChiKind::RandPerm(_) => "randperm",
                    ChiKind::PrfSmall(_, _) => "prf-bits",
                }
            ),
            format!("{}: chi2 = {:.1} > {:.1} (df {}, false-alarm bound e^-{}); cells {:?}", what, chi, thr, k - 1.0, CHI_X, cells),
        );
    }
    let ratio = chi / thr;
    Outcome::pass(true)
        .label(match c.kind {
            ChiKind::Range(m) => format!("range:m={}", m),
            ChiKind::PermKeys(_, n) => format!("permprf-keys:n={}", n),
            ChiKind::PermIvs(_, n) => format!("permprf-ivs:n={}", n),
            ChiKind::RandPerm(n) => format!("randperm:n={}", n),
            ChiKind::PrfSmall(_, b) => format!("prf-bits:{}", b),
        })
        .label(if ratio < 0.1 {
            "chi/threshold<0.1"
        } else if ratio < 0.25 {
            "chi/threshold<0.25"
        } else if ratio < 0.5 {
            "chi/threshold<0.5"
        } else {
            "chi/threshold<1"
        })
}

// ---------------------------------------------------------------------------------------------

fn seed_from(env: &Env, name: &str, i: u64) -> [u8; 16] {
    let m = mix_seed(env.seed, &format!("C15/{}", name), i);
    let mut s = [0u8; 16];
    s.copy_from_slice(&m[..16]);
    s
}

pub fn run(env: &Env) {
    env.assume("cryptographic quality of AES-128 (PRF/PRNG streams behave like independent uniform bytes) is assumed, not tested");
    env.assume("get_random_in_range is compared with the sampler its doc comment states: 64-bit little-endian draws, rejection bound 2^64 - (2^64 mod m), result r mod m");
    env.note(
        "statistical_thresholds",
        serde_json::json!({
            "chi2": "alarm iff chi2 > df + 2 sqrt(df x) + 2x with x = 36 (Laurent-Massart: P <= e^-36 = 2.4e-16 per test)",
            "collisions": "inequality of independent outputs demanded only for >= 64 bits of entropy (2^-64 per comparison, <= 66 comparisons per case); shared 16-byte windows 2^-128 per pair",
        }),
    );
    let max_perm = env.pick(300u64, 1200u64);
    env.campaign(
        "range-exact",
        "get_random_in_range(m) equals the reference rejection sampler (accept r < floor(2^64/m)*m, output r mod m) run on a twin PRNG read with get_random_bytes(8); both generators consumed the same number of bytes",
        env.n(150_000, 3_000_000),
        arb_range_case,
        oracle_range,
    );
    // every modulus of the listed families once, with run-specific seeds
    let mut moduli: Vec<u64> = (1..=512).collect();
    for k in 1..64u32 {
        moduli.push(1u64 << k);
        moduli.push((1u64 << k) + 1);
        moduli.push((1u64 << k) - 1);
    }
    moduli.push(u64::MAX);
    moduli.push(u64::MAX - 1);
    moduli.sort();
    moduli.dedup();
    let reps = env.pick(2u64, 40u64);
    let mut items = vec![];
    for (i, m) in moduli.iter().enumerate() {
        for r in 0..reps {
            items.push(RangeCase {
                seed: seed_from(env, "range-moduli", i as u64 * 64 + r),
                reqs: vec![RReq::Range(*m); 48],
            });
        }
    }
    env.enumerate_opt(
        "range-moduli",
        "the same comparison, 48 draws for every modulus in 1..=512, 2^k, 2^k+-1 (k<64), 2^64-2, 2^64-1 (seeds derived from VERIF_SEED)",
        items,
        false,
        oracle_range,
    );
    env.campaign(
        "prng-replay",
        "PRNG::new(seed) twice: identical answers to the same request sequence (bytes / typed values / bounded and full integers), valid encodings, in-range integers, still in step afterwards; another seed gives other bytes",
        env.n(100_000, 2_000_000),
        arb_prng_case,
        oracle_prng_replay,
    );
    env.campaign(
        "eval-random",
        "Random / RandomPermutation nodes through SimpleEvaluator::new(seed): valid encodings, same seed => same sequence, other seed / next draw => different value (>= 64 bits)",
        env.n(50_000, 1_000_000),
        move || arb_eval_rand_case(max_perm),
        oracle_eval_random,
    );
    env.campaign(
        "purity",
        "PRF / PermutationFromPRF nodes over Input keys evaluated with evaluate_node in 2-4 SimpleEvaluator instances, each in its own order, with repeats and interleaved Random calls: \
all values of a node identical; equal (key bytes, iv, type) => equal; different key or iv => different (>= 64 bits) and no shared 16-byte window; check_type, no stray bits, true permutations",
        env.n(100_000, 3_000_000),
        move || arb_purity_case(max_perm),
        oracle_purity,
    );
    env.campaign(
        "chi",
        "chi-square against the uniform distribution: 60000 bounded draws for m in {2..33}; frequencies of the n! permutations (n=3,4) of PermutationFromPRF over 48000 keys / 48000 counters and of RandomPermutation over 48000 draws; low bits of 60000 PRF outputs; alarm iff chi2 > df + 2 sqrt(36 df) + 72",
        env.n(64, 2_000),
        arb_chi_case,
        oracle_chi,
    );
}

pub fn replay(check: &str, case: J) -> Outcome {
    match check {
        "purity" => replay_with::<PurityCase, _>(case, oracle_purity),
        "eval-random" => replay_with::<EvalRandCase, _>(case, oracle_eval_random),
        "prng-replay" => replay_with::<PrngCase, _>(case, oracle_prng_replay),
        "range-exact" | "range-moduli" => replay_with::<RangeCase, _>(case, oracle_range),
        _ => replay_with::<ChiCase, _>(case, oracle_chi),
    }
}
