//! C04 — every pseudo-random mask is fresh: PRF counters pairwise distinct in compiler output; the
//! optimiser never folds, merges or duplicates a randomising / PRF node (it may only drop dead ones).
use crate::c01::{arb_cfg, Case as MpcCase};
use crate::core::*;
use crate::graphgen::*;
use crate::mpcx::*;
use ciphercore_base::custom_ops::MappedContext;
use ciphercore_base::evaluators::simple_evaluator::SimpleEvaluator;
use ciphercore_base::graphs::{Context, Graph, Node, Operation};
use ciphercore_base::mpc::mpc_compiler::{prepare_context, prepare_for_mpc_evaluation, IOStatus};
use ciphercore_base::optimizer::optimize::optimize_context;
use proptest::prelude::*;
use serde::{Deserialize, Serialize};
use serde_json::Value as J;
use std::collections::{HashMap, HashSet};

pub const RULE: &str = "(i/iii) MPC recipes (as C01, weighted towards multiplications, conversions, mixed multiply, permutations, Iterate bodies) compiled stage by stage (prepare_context -> prepare_for_mpc_evaluation -> optimize_context) in all inline modes: PRF counters pairwise distinct and non-zero before and after the final optimiser, and the optimiser's node mapping keeps every live randomising/PRF node (same operation), injectively, with exactly one pre-image per surviving node, never as a Constant; \
(ii) generated inlined graphs with Random / RandomPermutation / PRF / PermutationFromPRF nodes (keys from Random nodes, small counters so collisions are likely), duplicated nodes, constants and dangling parts given to optimize_context with the same mapping invariants; \
non-trivial = >=2 PRF nodes sharing a key node (i/iii) resp. >=1 live and >=1 dead randomising/PRF node or a duplicated randomising node (ii); distinct = distinct case";

fn is_rand_or_prf(op: &Operation) -> bool {
    op.is_prf_operation()
        || matches!(
            op,
            Operation::Random(_) | Operation::RandomPermutation(_) | Operation::CuckooToPermutation | Operation::DecomposeSwitchingMap(_)
        )
}

fn live_set(g: &Graph) -> HashSet<u64> {
    let mut live = HashSet::new();
    let mut stack = vec![g.get_output_node().unwrap()];
    while let Some(n) = stack.pop() {
        if live.insert(n.get_id()) {
            for d in n.get_node_dependencies() {
                stack.push(d);
            }
        }
    }
    live
}

/// (a): PRF counters pairwise distinct (and non-zero) over the whole context
fn check_counters(ctx: &Context, stage: &str) -> Result<(usize, usize), Outcome> {
    let mut seen: HashMap<u64, (u64, u64)> = HashMap::new();
    let mut n_prf = 0;
    let mut max_per_key = 0usize;
    for g in ctx.get_graphs() {
        let mut per_key: HashMap<u64, usize> = HashMap::new();
        for n in g.get_nodes() {
            let iv = match n.get_operation() {
                Operation::PRF(iv, _) => iv,
                Operation::PermutationFromPRF(iv, _) => iv,
                _ => continue,
            };
            n_prf += 1;
            let key_id = n.get_node_dependencies()[0].get_id();
            let e = per_key.entry(key_id).or_insert(0);
            *e += 1;
            max_per_key = max_per_key.max(*e);
            if iv == 0 {
                return Err(Outcome::fail("prf-counter-zero", format!("{}: PRF node {:?} has counter 0", stage, n.get_global_id())));
            }
            if let Some(prev) = seen.insert(iv, n.get_global_id()) {
                return Err(Outcome::fail(
                    "prf-counter-reused",
                    format!("{}: PRF nodes {:?} and {:?} carry the same counter {}", stage, prev, n.get_global_id(), iv),
                ));
            }
        }
    }
    Ok((n_prf, max_per_key))
}

pub struct MapStats {
    pub live: usize,
    pub dead: usize,
    pub dropped_dead: usize,
    pub dropped_live_syntactic: usize,
}

/// (b): mapping invariants of one optimiser run
fn check_mapping(before: &Context, m: &MappedContext, stage: &str) -> Result<MapStats, Outcome> {
    let after = m.get_context();
    let mut stats = MapStats { live: 0, dead: 0, dropped_dead: 0, dropped_live_syntactic: 0 };
    let bg = before.get_graphs();
    let ag = after.get_graphs();
    if bg.len() != ag.len() {
        return Err(Outcome::fail("opt-graph-count", format!("{}: {} graphs became {}", stage, bg.len(), ag.len())));
    }
    for (g, g2) in bg.iter().zip(ag.iter()) {
        let live = live_set(g);
        let mut images: HashMap<u64, Vec<Node>> = HashMap::new();
        for n in g.get_nodes() {
            let op = n.get_operation();
            if !is_rand_or_prf(&op) {
                continue;
            }
            let is_live = live.contains(&n.get_id());
            if is_live {
                stats.live += 1;
            } else {
                stats.dead += 1;
            }
            if !m.mappings.contains_node(&n) {
                // dropped: allowed when nothing that reaches the output depends on it (checked
                // below through the surviving users of the node)
                if is_live {
                    stats.dropped_live_syntactic += 1;
                } else {
                    stats.dropped_dead += 1;
                }
                continue;
            }
            let img = m.mappings.get_node(&n);
            let iop = img.get_operation();
            if img.get_graph() != *g2 {
                return Err(Outcome::fail("opt-map-outside", format!("{}: {} node {:?} maps outside the result graph", stage, op, n.get_global_id())));
            }
            if matches!(iop, Operation::Constant(_, _)) {
                return Err(Outcome::fail("opt-random-folded", format!("{}: {} node {:?} became a Constant", stage, op, n.get_global_id())));
            }
            if iop != op {
                return Err(Outcome::fail(
                    "opt-random-changed",
                    format!("{}: {} node {:?} mapped to a node with operation {:?}", stage, op, n.get_global_id(), iop),
                ));
            }
            images.entry(img.get_id()).or_default().push(n.clone());
        }
        for (img, pre) in &images {
            if pre.len() > 1 {
                return Err(Outcome::fail(
                    "opt-random-merged",
                    format!("{}: nodes {:?} were merged into node {}", stage, pre.iter().map(|n| n.get_global_id()).collect::<Vec<_>>(), img),
                ));
            }
        }
        // a surviving, un-rewritten user of a randomising/PRF node still uses the image of that node
        // at the same position (so such a node is dropped only when no surviving node depends on it)
        for u in g.get_nodes() {
            if !m.mappings.contains_node(&u) {
                continue;
            }
            let u2 = m.mappings.get_node(&u);
            if u2.get_graph() != *g2 || u2.get_operation() != u.get_operation() {
                continue;
            }
            let d1 = u.get_node_dependencies();
            let d2 = u2.get_node_dependencies();
            if d1.len() != d2.len() {
                continue;
            }
            for (a, b) in d1.iter().zip(d2.iter()) {
                if is_rand_or_prf(&a.get_operation()) {
                    // position-independent (a merge of Add(x, y) with Add(y, x) is legitimate)
                    let _ = b;
                    if !m.mappings.contains_node(a) || !d2.iter().any(|x| *x == m.mappings.get_node(a)) {
                        return Err(Outcome::fail(
                            "opt-random-user-rewired",
                            format!(
                                "{}: node {:?} ({}) survives but its dependency {:?} ({}) was dropped or replaced by node {}",
                                stage, u.get_global_id(), u.get_operation(), a.get_global_id(), a.get_operation(), b.get_id()
                            ),
                        ));
                    }
                }
            }
        }
        // no invention / duplication: every randomising node of the result has exactly one pre-image
        for n2 in g2.get_nodes() {
            if is_rand_or_prf(&n2.get_operation()) && !images.contains_key(&n2.get_id()) {
                return Err(Outcome::fail(
                    "opt-random-invented",
                    format!("{}: result node {:?} ({}) has no pre-image under the mapping", stage, n2.get_global_id(), n2.get_operation()),
                ));
            }
        }
    }
    Ok(stats)
}

// ---------------------------------------------------------------------------------------------
// (i)+(iii): the compile pipeline stage by stage

pub fn oracle_pipeline(c: &MpcCase) -> Outcome {
    let built = match build(&c.recipe, 64) {
        Some(b) => b,
        None => return Outcome::skip("unbuildable-recipe"),
    };
    let n = built.inputs.len();
    if n == 0 {
        return Outcome::skip("no-inputs");
    }
    let owners: Vec<IOStatus> = (0..n)
        .map(|i| if built.inputs[i].2 == InKind::Perm { IOStatus::Public } else { io_status(owner_of(&c.cfg, i)) })
        .collect();
    let outs: Vec<IOStatus> = c.cfg.outs.iter().map(|p| IOStatus::Party((*p % 3) as u64)).collect();
    let icfg = inline_cfg(c.cfg.mode);
    let seed = c.cfg.compile_seed;
    let r = crate::util::catch(|| -> Result<(Context, MappedContext), String> {
        let c4 = prepare_context(built.context.clone(), icfg.clone(), SimpleEvaluator::new(Some(seed)).unwrap(), false)
            .map_err(|e| e.to_string())?;
        let c0 = prepare_for_mpc_evaluation(&c4.get_context(), vec![owners.clone()], vec![outs.clone()], icfg.clone())
            .map_err(|e| e.to_string())?;
        let before = c0.get_context();
        let fin = optimize_context(&before, SimpleEvaluator::new(Some(seed)).unwrap()).map_err(|e| e.to_string())?;
        Ok((before, fin))
    });
    let (before, fin) = match r {
        Ok(Ok(x)) => x,
        Ok(Err(_)) => return Outcome::skip("compiler-rejected"),
        Err(_) => return Outcome::skip("compiler-panic"),
    };
    let (n_prf0, _) = match check_counters(&before, "after uniquify_prf_id") {
        Ok(x) => x,
        Err(o) => return o,
    };
    let (n_prf1, max_per_key) = match check_counters(&fin.get_context(), "final compiled context") {
        Ok(x) => x,
        Err(o) => return o,
    };
    let st = match check_mapping(&before, &fin, "final optimiser") {
        Ok(s) => s,
        Err(o) => return o,
    };
    Outcome::pass(max_per_key >= 2)
        .label(format!("mode:{}", mode_name(c.cfg.mode)))
        .label(format!("prf-nodes:{}", crate::c01::bucket(n_prf1)))
        .label(format!("prf-per-key-max:{}", max_per_key.min(9)))
        .label(if n_prf0 > n_prf1 { "optimiser-dropped-prf" } else { "optimiser-kept-all-prf" })
        .label(format!("dead-random:{}", st.dead.min(5)))
}

fn pipeline_kinds() -> Vec<(u32, K)> {
    // as C01 but weighted towards the protocols that draw several masks from one key
    let mut k = mpc_kinds();
    for e in k.iter_mut() {
        match e.1 {
            K::Mul | K::MixedMul | K::A2B | K::B2A | K::Iterate | K::Call => e.0 *= 2,
            K::Sort | K::ApplyPerm | K::Cmp => e.0 += 2,
            _ => {}
        }
    }
    k.push((3, K::Trunc));
    k
}

fn arb_pipeline_case(max_steps: usize) -> BoxedStrategy<MpcCase> {
    (arb_recipe(pipeline_kinds(), 2, max_steps, 2), arb_cfg(), any::<[[u8; 16]; 3]>())
        .prop_map(|(recipe, cfg, seeds)| MpcCase { recipe, cfg, seeds, share_seed: 0, junk_seed: 0, private_perm: false })
        .boxed()
}

// ---------------------------------------------------------------------------------------------
// (ii): generated inlined graphs with randomness given to the optimiser

#[derive(Clone, Debug, Serialize, Deserialize)]
pub struct OptCase {
    pub recipe: Recipe,
    pub seed: [u8; 16],
}

pub fn opt_kinds() -> Vec<(u32, K)> {
    vec![
        (4, K::Input),
        (6, K::Const),
        (2, K::Zeros),
        (2, K::Ones),
        (6, K::Add),
        (3, K::Sub),
        (4, K::Mul),
        (2, K::MixedMul),
        (2, K::Sum),
        (2, K::Get),
        (2, K::Slice),
        (2, K::Reshape),
        (2, K::Stack),
        (3, K::MkTuple),
        (2, K::MkNamed),
        (2, K::MkVector),
        (4, K::TupleGet),
        (2, K::NamedGet),
        (3, K::VectorGet),
        (2, K::Zip),
        (2, K::A2V),
        (2, K::A2B),
        (2, K::B2A),
        (3, K::Nop),
        (8, K::Random),
        (3, K::RandomPerm),
        (3, K::CuckooToPerm),
        (2, K::DecomposeSwitch),
        (10, K::Prf),
        (4, K::PermPrf),
        (8, K::Dup),
        (3, K::DupSwap),
    ]
}

fn arb_opt_case(max_steps: usize) -> BoxedStrategy<OptCase> {
    (arb_recipe(opt_kinds(), 3, max_steps, 0), any::<[u8; 16]>(), any::<[u16; 6]>())
        .prop_map(|(mut recipe, seed, r)| {
            // gather several pool nodes into the output so that many randomising nodes are live
            let mk = |a: u16, b: u16, c: u16| Step { k: K::MkTuple, a, b, c, p: [3, 0, 0, 0] };
            recipe.steps.push(mk(r[0], r[1], r[2]));
            recipe.steps.push(mk(r[3], r[4], r[5]));
            recipe.steps.push(mk(0, 4096, r[0] ^ r[3]));
            recipe.out = 0;
            OptCase { recipe, seed }
        })
        .boxed()
}

pub fn oracle_opt(c: &OptCase) -> Outcome {
    let built = match build(&c.recipe, 64) {
        Some(b) => b,
        None => return Outcome::skip("unbuildable-recipe"),
    };
    let seed = c.seed;
    let r = crate::util::catch(|| optimize_context(&built.context, SimpleEvaluator::new(Some(seed)).unwrap()).map_err(|e| e.to_string()));
    let m = match r {
        Ok(Ok(m)) => m,
        Ok(Err(e)) => {
            // constant folding evaluates constant sub-expressions: a data-dependent runtime error
            // there is not this property's subject
            return Outcome::skip("optimizer-error").label(format!("optimizer-error:{}", e.chars().take(40).collect::<String>()));
        }
        Err(p) => return Outcome::skip("optimizer-panic").label(format!("optimizer-panic:{}", p.chars().take(60).collect::<String>())),
    };
    let st = match check_mapping(&built.context, &m, "optimize_context") {
        Ok(s) => s,
        Err(o) => return o,
    };
    let n_dup = built.applied.iter().filter(|k| k.as_str() == "Dup").count();
    let nt = (st.live >= 1 && st.dead >= 1) || (n_dup >= 1 && st.live >= 2);
    Outcome::pass(nt)
        .label(format!("live-random:{}", st.live.min(8)))
        .label(format!("dead-random:{}", st.dead.min(8)))
        .label(format!("dups:{}", n_dup.min(5)))
        .label(format!("dropped-dead:{}", st.dropped_dead.min(5)))
        .label(format!("dropped-after-getter-resolution:{}", st.dropped_live_syntactic.min(5)))
}

pub fn run(env: &Env) {
    env.assume("PRF nodes keyed by a Constant are outside the domain (no producer creates them; folding one is value-preserving)");
    env.set_shrink_iters(600);
    let steps = env.pick(12, 24);
    env.campaign("pipeline", "compile pipeline stage by stage; counters + final optimiser mapping", env.n(6000, 150_000), move || arb_pipeline_case(steps), oracle_pipeline);
    env.set_shrink_iters(3000);
    let steps2 = env.pick(16, 36);
    env.campaign("optimizer", "generated inlined graphs with Random/PRF nodes, duplicates, constants, dangling parts -> optimize_context mapping invariants", env.n(30_000, 1_000_000), move || arb_opt_case(steps2), oracle_opt);
}

pub fn replay(check: &str, case: J) -> Outcome {
    match check {
        "pipeline" => replay_with::<MpcCase, _>(case, oracle_pipeline),
        _ => replay_with::<OptCase, _>(case, oracle_opt),
    }
}
