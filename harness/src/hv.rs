//! Harness-side value model, independent of ciphercore's byte handling:
//! `HVal::A(elements)` for scalars/arrays (each element reduced modulo 2^w, row-major) and
//! `HVal::V(children)` for tuples / named tuples / vectors. `encode`/`decode` are the harness's
//! own reference implementation of the documented byte layout (little-endian, ceil(bits/8) bytes,
//! BIT arrays packed LSB-first, unused high bits of the last byte zero).
use ciphercore_base::data_types::{ScalarType, Type};
use ciphercore_base::data_values::Value;
use serde::{Deserialize, Serialize};

#[derive(Clone, Debug, PartialEq, Eq, Hash, Serialize, Deserialize)]
pub enum HVal {
    A(Vec<u128>),
    V(Vec<HVal>),
}

pub const ALL_ST: [ScalarType; 11] = [
    ScalarType::Bit,
    ScalarType::U8,
    ScalarType::I8,
    ScalarType::U16,
    ScalarType::I16,
    ScalarType::U32,
    ScalarType::I32,
    ScalarType::U64,
    ScalarType::I64,
    ScalarType::U128,
    ScalarType::I128,
];

pub fn bits(st: ScalarType) -> u32 {
    match st {
        ScalarType::Bit => 1,
        ScalarType::U8 | ScalarType::I8 => 8,
        ScalarType::U16 | ScalarType::I16 => 16,
        ScalarType::U32 | ScalarType::I32 => 32,
        ScalarType::U64 | ScalarType::I64 => 64,
        ScalarType::U128 | ScalarType::I128 => 128,
    }
}
pub fn is_signed(st: ScalarType) -> bool {
    matches!(
        st,
        ScalarType::I8 | ScalarType::I16 | ScalarType::I32 | ScalarType::I64 | ScalarType::I128
    )
}
pub fn mask(st: ScalarType) -> u128 {
    let b = bits(st);
    if b == 128 {
        u128::MAX
    } else {
        (1u128 << b) - 1
    }
}
pub fn mask_bits(b: u32) -> u128 {
    if b >= 128 {
        u128::MAX
    } else {
        (1u128 << b) - 1
    }
}
/// two's-complement interpretation of a reduced element
pub fn to_signed(x: u128, st: ScalarType) -> i128 {
    let b = bits(st);
    if !is_signed(st) {
        return x as i128; // caller must not use for U128 >= 2^127
    }
    if b == 128 {
        x as i128
    } else if x >> (b - 1) & 1 == 1 {
        (x as i128) - (1i128 << b)
    } else {
        x as i128
    }
}
pub fn from_signed(x: i128, st: ScalarType) -> u128 {
    (x as u128) & mask(st)
}

pub fn num_elems(shape: &[u64]) -> usize {
    shape.iter().product::<u64>() as usize
}

pub fn type_elems(t: &Type) -> usize {
    match t {
        Type::Scalar(_) => 1,
        Type::Array(s, _) => num_elems(s),
        _ => panic!("type_elems on container"),
    }
}

pub fn children_types(t: &Type) -> Vec<Type> {
    match t {
        Type::Tuple(ts) => ts.iter().map(|x| (**x).clone()).collect(),
        Type::NamedTuple(ts) => ts.iter().map(|(_, x)| (**x).clone()).collect(),
        Type::Vector(n, et) => (0..*n).map(|_| (**et).clone()).collect(),
        _ => panic!("children_types on leaf"),
    }
}

pub fn is_leaf(t: &Type) -> bool {
    matches!(t, Type::Scalar(_) | Type::Array(_, _))
}

pub fn leaf_st(t: &Type) -> ScalarType {
    match t {
        Type::Scalar(st) => *st,
        Type::Array(_, st) => *st,
        _ => panic!("leaf_st on container"),
    }
}

pub fn leaf_shape(t: &Type) -> Vec<u64> {
    match t {
        Type::Scalar(_) => vec![],
        Type::Array(s, _) => s.clone(),
        _ => panic!("leaf_shape on container"),
    }
}

/// reference byte encoder for a leaf
pub fn encode_leaf(xs: &[u128], st: ScalarType) -> Vec<u8> {
    let b = bits(st);
    if b == 1 {
        let mut out = vec![0u8; (xs.len() + 7) / 8];
        for (i, x) in xs.iter().enumerate() {
            if x & 1 == 1 {
                out[i / 8] |= 1 << (i % 8);
            }
        }
        out
    } else {
        let nb = (b / 8) as usize;
        let mut out = Vec::with_capacity(xs.len() * nb);
        for x in xs {
            let le = x.to_le_bytes();
            out.extend_from_slice(&le[..nb]);
        }
        out
    }
}

pub fn decode_leaf(bytes: &[u8], n: usize, st: ScalarType) -> Result<Vec<u128>, String> {
    let b = bits(st);
    if b == 1 {
        if bytes.len() != (n + 7) / 8 {
            return Err(format!("bit leaf: {} bytes for {} bits", bytes.len(), n));
        }
        Ok((0..n).map(|i| ((bytes[i / 8] >> (i % 8)) & 1) as u128).collect())
    } else {
        let nb = (b / 8) as usize;
        if bytes.len() != n * nb {
            return Err(format!("leaf: {} bytes for {} elements of {} bytes", bytes.len(), n, nb));
        }
        Ok(bytes
            .chunks(nb)
            .map(|c| {
                let mut le = [0u8; 16];
                le[..nb].copy_from_slice(c);
                u128::from_le_bytes(le)
            })
            .collect())
    }
}

/// stray (unused) bits of the last byte of a BIT leaf
pub fn stray_bits(bytes: &[u8], n: usize, st: ScalarType) -> u8 {
    if bits(st) != 1 || n % 8 == 0 || bytes.is_empty() {
        return 0;
    }
    bytes[bytes.len() - 1] >> (n % 8)
}

pub fn encode(v: &HVal, t: &Type) -> Value {
    match (v, t) {
        (HVal::A(xs), Type::Scalar(st)) => Value::from_bytes(encode_leaf(xs, *st)),
        (HVal::A(xs), Type::Array(_, st)) => Value::from_bytes(encode_leaf(xs, *st)),
        (HVal::V(cs), _) => {
            let ts = children_types(t);
            assert_eq!(ts.len(), cs.len(), "encode: arity mismatch");
            Value::from_vector(cs.iter().zip(ts.iter()).map(|(c, ct)| encode(c, ct)).collect())
        }
        _ => panic!("encode: value/type mismatch"),
    }
}

/// strict decoder: Err when the layout of `v` does not match `t`
pub fn decode(v: &Value, t: &Type) -> Result<HVal, String> {
    if is_leaf(t) {
        let n = type_elems(t);
        let st = leaf_st(t);
        v.access(
            |bytes| Ok(decode_leaf(bytes, n, st)),
            |_| Ok(Err("leaf type but vector value".to_string())),
        )
        .map_err(|e| format!("{}", e))?
        .map(HVal::A)
    } else {
        let ts = children_types(t);
        let subs: Result<Vec<Value>, String> = v
            .access(
                |_| Ok(Err("container type but bytes value".to_string())),
                |vs| Ok(Ok(vs.clone())),
            )
            .map_err(|e| format!("{}", e))?;
        let subs = subs?;
        if subs.len() != ts.len() {
            return Err(format!("container arity {} vs type arity {}", subs.len(), ts.len()));
        }
        let mut out = vec![];
        for (s, ct) in subs.iter().zip(ts.iter()) {
            out.push(decode(s, ct)?);
        }
        Ok(HVal::V(out))
    }
}

/// any stray bit set in any BIT leaf?
pub fn has_stray_bits(v: &Value, t: &Type) -> bool {
    if is_leaf(t) {
        let n = type_elems(t);
        let st = leaf_st(t);
        v.access(|bytes| Ok(stray_bits(bytes, n, st) != 0), |_| Ok(false))
            .unwrap_or(false)
    } else {
        let ts = children_types(t);
        v.access(
            |_| Ok(false),
            |vs| {
                Ok(vs
                    .iter()
                    .zip(ts.iter())
                    .any(|(s, ct)| has_stray_bits(s, ct)))
            },
        )
        .unwrap_or(false)
    }
}

/// type-recursive element-wise combination (the harness's own adder/subtracter)
pub fn zip_with(a: &HVal, b: &HVal, t: &Type, f: &dyn Fn(u128, u128, ScalarType) -> u128) -> HVal {
    match (a, b) {
        (HVal::A(x), HVal::A(y)) => {
            let st = leaf_st(t);
            assert_eq!(x.len(), y.len());
            HVal::A(x.iter().zip(y.iter()).map(|(p, q)| f(*p, *q, st)).collect())
        }
        (HVal::V(x), HVal::V(y)) => {
            let ts = children_types(t);
            HVal::V(
                x.iter()
                    .zip(y.iter())
                    .zip(ts.iter())
                    .map(|((p, q), ct)| zip_with(p, q, ct, f))
                    .collect(),
            )
        }
        _ => panic!("zip_with: shape mismatch"),
    }
}

pub fn add(a: &HVal, b: &HVal, t: &Type) -> HVal {
    zip_with(a, b, t, &|x, y, st| x.wrapping_add(y) & mask(st))
}
pub fn sub(a: &HVal, b: &HVal, t: &Type) -> HVal {
    zip_with(a, b, t, &|x, y, st| x.wrapping_sub(y) & mask(st))
}

pub fn zero(t: &Type) -> HVal {
    if is_leaf(t) {
        HVal::A(vec![0; type_elems(t)])
    } else {
        HVal::V(children_types(t).iter().map(zero).collect())
    }
}

pub fn count_leaves(t: &Type) -> usize {
    if is_leaf(t) {
        1
    } else {
        children_types(t).iter().map(count_leaves).sum()
    }
}

pub fn total_elems(t: &Type) -> usize {
    if is_leaf(t) {
        type_elems(t)
    } else {
        children_types(t).iter().map(total_elems).sum()
    }
}

pub fn flat_elems(v: &HVal) -> Vec<u128> {
    match v {
        HVal::A(x) => x.clone(),
        HVal::V(c) => c.iter().flat_map(flat_elems).collect(),
    }
}
