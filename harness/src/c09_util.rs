//! C09 helper: plain-data recipes over ALL primitive operations with parameters drawn from the
//! fitting range and just outside it, and the interpreter that replays a recipe through the public
//! builder API (every builder call under `util::catch`).
use crate::gen::pick;
use crate::graphgen::{broadcastable, leaf_type, shape_from, splitmix, st_from};
use crate::hv::*;
use ciphercore_base::custom_ops::{CustomOperation, Not, Or};
use ciphercore_base::data_types::{
    array_type, get_size_in_bits, named_tuple_type, scalar_type, tuple_type, vector_type, ScalarType, Type, BIT,
    UINT64,
};
use ciphercore_base::data_values::Value;
use ciphercore_base::graphs::{create_context, Context, Graph, JoinType, Node, Operation, ShardConfig, SliceElement};
use ciphercore_base::ops::adder::BinaryAdd;
use ciphercore_base::ops::clip::Clip2K;
use ciphercore_base::ops::comparisons::{Equal, LessThan};
use ciphercore_base::ops::min_max::{Max, Min};
use ciphercore_base::ops::multiplexer::Mux;
use ciphercore_base::type_inference::NULL_HEADER;
use serde::{Deserialize, Serialize};
use std::collections::{BTreeSet, HashMap};

#[derive(Clone, Copy, Debug, Serialize, Deserialize, PartialEq, Eq, Hash, PartialOrd, Ord)]
pub enum O {
    Input,
    Const,
    Zeros,
    Ones,
    Random,
    RandomPerm,
    Add,
    Sub,
    Mul,
    MixedMul,
    Dot,
    Matmul,
    Gemm,
    Sum,
    CumSum,
    Permute,
    Get,
    Slice,
    Reshape,
    Truncate,
    Repeat,
    A2B,
    B2A,
    A2V,
    V2A,
    Nop,
    Print,
    Assert,
    MkTuple,
    MkNamed,
    MkVector,
    TupleGet,
    NamedGet,
    VectorGet,
    Zip,
    Stack,
    Concat,
    Gather,
    CuckooHash,
    SegmentCumSum,
    InvPerm,
    CuckooToPerm,
    DecomposeSM,
    Shard,
    ShardMasks,
    ApplyPerm,
    Sort,
    Join,
    JoinMasks,
    Prf,
    PermPrf,
    Call,
    Iterate,
    Custom,
    RawArity,
}

/// e == 0: parameters constructed to fit; 1..=200: near-miss variant (e modulo the number of variants
/// of the operation); > 200: "wild" (operands picked regardless of their type)
#[derive(Clone, Debug, Serialize, Deserialize, PartialEq, Eq, Hash)]
pub struct Step9 {
    pub o: O,
    pub a: u16,
    pub b: u16,
    pub c: u16,
    pub p: [u16; 4],
    pub e: u8,
}

#[derive(Clone, Debug, Serialize, Deserialize, PartialEq, Eq, Hash)]
pub struct Sub9 {
    pub ins: Vec<[u16; 4]>,
    pub steps: Vec<Step9>,
    pub iter: bool,
    pub out: u16,
}

#[derive(Clone, Debug, Serialize, Deserialize, PartialEq, Eq, Hash)]
pub struct R9 {
    pub subs: Vec<Sub9>,
    pub steps: Vec<Step9>,
    pub out: u16,
    pub vals: Vec<(u8, u128)>,
}

/// how the value of an input / generated constant is drawn
#[derive(Clone, Debug, PartialEq, Eq)]
pub enum InKind {
    Plain,
    /// permutation of 0..n (exact) or a near-permutation (one duplicate or one element == n)
    Perm { exact: bool },
    /// ok: distinct elements < bound; !ok: elements in 0..=bound+1
    Index { bound: u64, ok: bool },
    /// per table (last dimension): dummies (u64::MAX) + a permutation of the remaining indices
    Cuckoo { ok: bool },
    /// every element in 0..=bound
    Small { bound: u64 },
}

pub const MAX_EVAL_BITS: u64 = 1 << 18;
pub const MAX_EVAL_COUNT: u128 = 5_000;
const BIG: u64 = 1 << 16;

pub fn is_arr(t: &Type) -> bool {
    t.is_array()
}
pub fn max_dim(t: &Type) -> u64 {
    match t {
        Type::Scalar(_) => 1,
        Type::Array(s, _) => s.iter().copied().max().unwrap_or(1),
        Type::Vector(n, e) => (*n).max(max_dim(e)),
        Type::Tuple(ts) => ts.iter().map(|x| max_dim(x)).max().unwrap_or(1),
        Type::NamedTuple(ts) => ts.iter().map(|(_, x)| max_dim(x)).max().unwrap_or(1),
    }
}
/// number of values in the expanded value tree (saturating)
pub fn expanded_count(t: &Type) -> u128 {
    match t {
        Type::Scalar(_) | Type::Array(_, _) => 1,
        Type::Vector(n, e) => 1u128.saturating_add((*n as u128).saturating_mul(expanded_count(e))),
        Type::Tuple(ts) => ts.iter().fold(1u128, |a, x| a.saturating_add(expanded_count(x))),
        Type::NamedTuple(ts) => ts.iter().fold(1u128, |a, (_, x)| a.saturating_add(expanded_count(x))),
    }
}
pub fn is_huge(t: &Type) -> bool {
    max_dim(t) > BIG || expanded_count(t) > 4096 || get_size_in_bits(t.clone()).map(|b| b > MAX_EVAL_BITS).unwrap_or(true)
}
pub fn evaluable(t: &Type) -> bool {
    expanded_count(t) <= MAX_EVAL_COUNT && get_size_in_bits(t.clone()).map(|b| b <= MAX_EVAL_BITS).unwrap_or(false)
}
fn elems_of(t: &Type) -> u64 {
    leaf_shape(t).iter().product::<u64>()
}
pub fn flatten_leaves(t: &Type) -> Vec<Type> {
    if is_leaf(t) {
        vec![t.clone()]
    } else {
        children_types(t).iter().flat_map(flatten_leaves).collect()
    }
}

fn elem_from(kind: u8, raw: u128, st: ScalarType) -> u128 {
    let b = bits(st);
    let m = mask(st);
    if b == 1 {
        return (raw ^ kind as u128) & 1;
    }
    match kind % 10 {
        0 => 0,
        1 => 1,
        2 => m,
        3 => 1u128 << (b - 1),
        4 => (1u128 << (b - 1)) - 1,
        5 => (raw % 16) & m,
        6 => (raw % 16).wrapping_neg() & m,
        _ => raw & m,
    }
}

/// value of type t drawn from `next` according to `kind` (kind applies to leaves)
pub fn make_hval(t: &Type, kind: &InKind, next: &mut dyn FnMut() -> (u8, u128)) -> HVal {
    if !is_leaf(t) {
        return HVal::V(children_types(t).iter().map(|c| make_hval(c, kind, &mut *next)).collect());
    }
    let st = leaf_st(t);
    let n = type_elems(t);
    let m = mask(st);
    match kind {
        InKind::Plain => HVal::A((0..n).map(|_| { let (k, r) = next(); elem_from(k, r, st) }).collect()),
        InKind::Small { bound } => HVal::A((0..n).map(|_| (next().1 % (*bound as u128 + 1)) & m).collect()),
        InKind::Perm { exact } => {
            let keys: Vec<u128> = (0..n).map(|_| next().1).collect();
            let mut idx: Vec<usize> = (0..n).collect();
            idx.sort_by_key(|j| (keys[*j], *j));
            let mut perm = vec![0u128; n];
            for (pos, j) in idx.iter().enumerate() {
                perm[*j] = pos as u128;
            }
            if !*exact && n > 0 {
                let r = next().1;
                let j = (r % n as u128) as usize;
                perm[j] = if (r >> 8) & 1 == 1 { n as u128 } else { perm[(j + 1) % n] };
            }
            HVal::A(perm.into_iter().map(|x| x & m).collect())
        }
        InKind::Index { bound, ok } => {
            if *ok && *bound as usize >= n && *bound <= 4096 {
                let b = *bound as usize;
                let keys: Vec<u128> = (0..b).map(|_| next().1).collect();
                let mut idx: Vec<usize> = (0..b).collect();
                idx.sort_by_key(|j| (keys[*j], *j));
                HVal::A(idx.into_iter().take(n).map(|x| x as u128 & m).collect())
            } else {
                HVal::A((0..n).map(|_| (next().1 % (*bound as u128 + 2)) & m).collect())
            }
        }
        InKind::Cuckoo { ok } => {
            let sh = leaf_shape(t);
            let s = *sh.last().unwrap_or(&1) as usize;
            let mut out = vec![];
            for _ in 0..(n / s.max(1)) {
                if *ok {
                    let d = (next().1 % (s as u128 + 1)) as usize;
                    let keys: Vec<u128> = (0..s).map(|_| next().1).collect();
                    let mut pos: Vec<usize> = (0..s).collect();
                    pos.sort_by_key(|j| (keys[*j], *j));
                    let mut table = vec![u64::MAX as u128; s];
                    for (v, p) in pos.iter().take(s - d).enumerate() {
                        table[*p] = v as u128;
                    }
                    out.extend(table);
                } else {
                    for _ in 0..s {
                        let r = next().1;
                        out.push(if r & 7 == 0 { u64::MAX as u128 } else { (r >> 8) % (s as u128 + 1) });
                    }
                }
            }
            HVal::A(out.into_iter().map(|x| x & m).collect())
        }
    }
}

/// general (valid) type from parameters: mostly leaves, sometimes small containers incl. zero-length vectors
pub fn gen_type(p: &[u16; 4]) -> Type {
    let st = st_from(p[0]);
    let leaf = leaf_type(st, &shape_from(p[1], p[2]));
    let st2 = st_from(p[3] >> 4);
    let leaf2 = leaf_type(st2, &shape_from(p[2] >> 3, p[1] >> 2));
    match p[3] % 16 {
        0..=8 => leaf,
        9 => tuple_type(vec![leaf, leaf2]),
        10 => vector_type((p[2] % 4) as u64, leaf),
        11 => named_tuple_type(vec![("x".to_string(), leaf), ("y".to_string(), leaf2)]),
        12 => tuple_type(vec![]),
        13 => vector_type((p[1] % 3) as u64, tuple_type(vec![leaf, leaf2])),
        14 => tuple_type(vec![vector_type(0, leaf), leaf2]),
        _ => vector_type(1 + (p[2] % 2) as u64, vector_type((p[1] % 3) as u64, leaf)),
    }
}
pub fn gen_array_type(p: &[u16; 4]) -> Type {
    let st = st_from(p[0]);
    let mut sh = shape_from(p[1], p[2]);
    if sh.is_empty() {
        sh.push(1 + (p[2] % 4) as u64);
    }
    array_type(sh, st)
}
pub fn invalid_type(sel: u16, p: &[u16; 4]) -> Type {
    let st = st_from(p[0]);
    match sel % 5 {
        0 => array_type(vec![2, 0, 3], st),
        1 => array_type(vec![], st),
        2 => named_tuple_type(vec![("x".to_string(), scalar_type(st)), ("x".to_string(), scalar_type(BIT))]),
        3 => array_type(vec![u64::MAX, 2], st),
        _ => tuple_type(vec![scalar_type(st), vector_type(2, array_type(vec![0], st))]),
    }
}
pub fn huge_type(sel: u16, p: &[u16; 4]) -> Type {
    let st = [BIT, ScalarType::U8, UINT64, BIT, ScalarType::I32][(p[0] % 5) as usize];
    let sh: Vec<u64> = match sel % 10 {
        0 => vec![1 << 31],
        1 => vec![1 << 32],
        2 => vec![1 << 62],
        3 => vec![1 << 63],
        4 => vec![1 << 32, 1 << 31],
        5 => vec![3, 1 << 61],
        6 => vec![(1 << 63) - 1],
        7 => vec![u64::MAX],
        8 => vec![1 << 20, 2],
        _ => vec![2, (1 << 57) - 1, 1],
    };
    array_type(sh, st)
}
fn perturb_type(t: &Type, sel: usize) -> Type {
    if !is_leaf(t) {
        return tuple_type(vec![t.clone()]);
    }
    let st = leaf_st(t);
    let sh = leaf_shape(t);
    let other = ALL_ST[(ALL_ST.iter().position(|x| *x == st).unwrap() + 3) % ALL_ST.len()];
    match sel % 8 {
        0 => leaf_type(other, &sh),
        1 => {
            let mut s = if sh.is_empty() { vec![2] } else { sh.clone() };
            s[0] += 1;
            if s[0] == 2 {
                s[0] = 3;
            }
            leaf_type(st, &s)
        }
        2 => leaf_type(st, if sh.is_empty() { &[1] } else { &sh[1..] }),
        3 => {
            let mut s = vec![2];
            s.extend(sh);
            leaf_type(st, &s)
        }
        4 => scalar_type(st),
        5 => tuple_type(vec![t.clone()]),
        6 => {
            let mut s = if sh.is_empty() { vec![2] } else { sh.clone() };
            let l = s.len() - 1;
            s[l] += 2;
            leaf_type(st, &s)
        }
        _ => leaf_type(if st == BIT { ScalarType::U8 } else { BIT }, &sh),
    }
}

pub struct Pool {
    pub g: Graph,
    pub nodes: Vec<Node>,
    pub types: Vec<Type>,
}
impl Pool {
    fn new(g: Graph) -> Pool {
        Pool { g, nodes: vec![], types: vec![] }
    }
    fn push(&mut self, n: Node, t: Type) -> usize {
        self.nodes.push(n);
        self.types.push(t);
        self.nodes.len() - 1
    }
    fn pick_where<F: Fn(&Type) -> bool>(&self, sel: u16, pred: F) -> Option<usize> {
        let cands: Vec<usize> = (0..self.nodes.len()).filter(|i| pred(&self.types[*i])).collect();
        if cands.is_empty() {
            None
        } else {
            Some(cands[cands.len() - 1 - pick(sel, cands.len())])
        }
    }
}

pub enum Res {
    Added(usize),
    Rejected,
    Panicked,
    Skipped,
}

pub struct SubInfo {
    pub g: Graph,
    pub ins: Vec<Type>,
    pub iter: bool,
}

pub struct Interp {
    pub ctx: Context,
    pub subs: Vec<SubInfo>,
    pub inputs: Vec<(Type, InKind)>,
    pub labels: BTreeSet<String>,
    pub n_applied: usize,
    pub n_rejected: usize,
    /// first builder panic: (operation, message @ location)
    pub panic: Option<(String, String)>,
    pub has_custom: bool,
    /// first accepted near-miss variant that the documentation says must be rejected
    pub misfit: Option<String>,
    allow_inputs: bool,
}

pub struct Built9 {
    pub ctx: Context,
    pub main: Graph,
    pub inputs: Vec<(Type, InKind)>,
    pub labels: BTreeSet<String>,
    pub n_applied: usize,
    pub n_rejected: usize,
    pub has_custom: bool,
    pub misfit: Option<String>,
}

type CRes<T> = ciphercore_base::errors::Result<T>;

/// near-miss variants whose parameters do not fit according to the documentation of the builder
/// method (graphs.rs doc comments / the NumPy pages they cite): the builder must answer Err.
/// Variants that are legal for some operands (e.g. a repeated axis on a rank-1 array) are not listed.
pub fn must_reject(name: &str, v: usize) -> bool {
    let fam = name.split(':').next().unwrap_or(name);
    let list: &[usize] = match fam {
        "Input" | "Zeros" | "Ones" | "Random" => &[0, 1, 2],
        "Const" => &[0, 1, 2, 5],
        "RandomPerm" => &[0],
        "Add" | "Sub" | "Mul" => &[0, 5, 7],
        "MixedMul" => &[0, 2],
        "Dot" => &[3],
        "Matmul" => &[0, 2, 3],
        "Gemm" => &[0, 1, 2, 3, 7],
        "Sum" => &[0, 1, 5, 6],
        "CumSum" => &[0, 1],
        "Permute" => &[0, 2, 3, 4],
        "Get" => &[0, 1, 4],
        "Slice" => &[0, 4, 5, 6, 7],
        "Reshape" => &[0],
        "Truncate" => &[0],
        "A2V" => &[0],
        "V2A" => &[0, 1, 2],
        "B2A" => &[0, 1, 2],
        "Assert" => &[0, 1, 2],
        "TupleGet" => &[0, 1, 2],
        "NamedGet" => &[0, 1],
        "VectorGet" => &[0, 1, 2],
        "Zip" => &[0, 1, 2],
        "Stack" => &[0, 1, 2, 3, 6],
        "Concat" => &[0, 1, 2, 4, 5, 6],
        "Gather" => &[0, 2, 3, 4, 5],
        "CuckooHash" => &[0, 1, 3, 4, 5, 6],
        "SegmentCumSum" => &[0, 1, 2, 3, 4, 5],
        "InvPerm" => &[0, 1, 2, 3, 4],
        "CuckooToPerm" => &[0, 1],
        "DecomposeSM" => &[0, 3],
        "ApplyPerm" => &[0, 1, 2, 3, 4, 5],
        "Sort" => &[0, 1, 2, 3, 4],
        "Shard" | "ShardMasks" => &[0, 1, 2, 3],
        "Join" | "JoinMasks" => &[0, 1, 2, 3, 4, 7],
        "Prf" => &[0, 1, 2, 3],
        "PermPrf" => &[0, 1, 2, 3, 4, 6],
        _ => &[],
    };
    list.contains(&v)
}

fn rng_next(seed: &mut u64) -> (u8, u128) {
    let k = splitmix(seed);
    let r = ((splitmix(seed) as u128) << 64) | splitmix(seed) as u128;
    ((k % 10) as u8, r)
}

impl Interp {
    fn call<F: FnOnce() -> CRes<Node>>(&mut self, pool: &mut Pool, name: &str, v: Option<usize>, f: F) -> Res {
        match crate::util::catch(f) {
            Ok(Ok(n)) => match crate::util::catch(|| n.get_type()) {
                Ok(Ok(t)) => {
                    self.n_applied += 1;
                    self.labels.insert(format!("op:{}", name));
                    if let Some(v) = v {
                        self.labels.insert(format!("nm:{}.{}:acc", name, v));
                        if must_reject(name, v) && self.misfit.is_none() {
                            self.misfit = Some(format!("{}.{}", name.split(':').next().unwrap_or(name), v));
                        }
                    }
                    Res::Added(pool.push(n, t))
                }
                Ok(Err(e)) => {
                    self.panic = Some((name.to_string(), format!("accepted node has no type: {} @ harness/c09:0", e)));
                    Res::Panicked
                }
                Err(p) => {
                    self.panic = Some((name.to_string(), p));
                    Res::Panicked
                }
            },
            Ok(Err(_)) => {
                self.n_rejected += 1;
                self.labels.insert(format!("rej:{}", name));
                if let Some(v) = v {
                    self.labels.insert(format!("nm:{}.{}:rej", name, v));
                }
                Res::Rejected
            }
            Err(p) => {
                self.panic = Some((name.to_string(), p));
                Res::Panicked
            }
        }
    }

    fn const_value(t: &Type, kind: &InKind, seed: u64) -> Value {
        let mut s = seed;
        let h = make_hval(t, kind, &mut || rng_next(&mut s));
        encode(&h, t)
    }

    /// fresh operand of a VALID type t: a new input (main graph) or a constant
    fn fresh(&mut self, pool: &mut Pool, t: &Type, kind: InKind, seed: u64) -> Option<usize> {
        let g = pool.g.clone();
        if self.allow_inputs && self.inputs.len() < 8 {
            let tt = t.clone();
            let n = crate::util::catch(|| g.input(tt)).ok()?.ok()?;
            self.inputs.push((t.clone(), kind));
            return Some(pool.push(n, t.clone()));
        }
        let tt = t.clone();
        let n = if is_huge(t) {
            crate::util::catch(|| g.zeros(tt)).ok()?.ok()?
        } else {
            let v = Self::const_value(t, &kind, seed);
            crate::util::catch(|| g.constant(tt, v)).ok()?.ok()?
        };
        Some(pool.push(n, t.clone()))
    }

    /// operand: wild -> any node; otherwise a pool node satisfying pred (mode 0,1) or a fresh one of type want
    #[allow(clippy::too_many_arguments)]
    fn opnd(&mut self, pool: &mut Pool, sel: u16, mode: u16, wild: bool, seed: u64, want: &Type, kind: InKind, pred: &dyn Fn(&Type) -> bool) -> Option<usize> {
        if wild {
            if let Some(i) = pool.pick_where(sel, |t| !is_huge(t)) {
                return Some(i);
            }
        } else if mode % 4 <= 1 {
            if let Some(i) = pool.pick_where(sel, pred) {
                return Some(i);
            }
        }
        self.fresh(pool, want, kind, seed)
    }

    /// an array operand (rank >= 1), not huge unless allowed
    fn arr(&mut self, pool: &mut Pool, sel: u16, s: &Step9, wild: bool, huge_ok: bool) -> Option<usize> {
        let want = gen_array_type(&s.p);
        self.opnd(pool, sel, 0, wild, s.c as u64 ^ 0x51, &want, InKind::Plain, &move |t: &Type| is_arr(t) && (huge_ok || !is_huge(t)))
    }

    fn step(&mut self, pool: &mut Pool, s: &Step9) -> Res {
        let g = pool.g.clone();
        let seed = (s.p[3] as u64) << 32 | (s.p[2] as u64) << 16 | s.c as u64;
        let v: Option<usize> = if (1..=200).contains(&s.e) { Some(s.e as usize) } else { None };
        let wild = s.e > 200;
        let name = format!("{:?}", s.o);
        let name = name.as_str();
        macro_rules! some {
            ($e:expr) => {
                match $e {
                    Some(x) => x,
                    None => return Res::Skipped,
                }
            };
        }
        match s.o {
            O::Input | O::Zeros | O::Ones | O::Random => {
                let (t, vv) = match v.map(|x| x % 7) {
                    None => (gen_type(&s.p), None),
                    Some(0) => (invalid_type(s.a, &s.p), Some(0)),
                    Some(1) => (array_type(vec![], st_from(s.p[0])), Some(1)),
                    Some(2) => (invalid_type(2, &s.p), Some(2)),
                    Some(3) => (huge_type(s.a, &s.p), Some(3)),
                    Some(4) => (vector_type(0, gen_type(&s.p)), Some(4)),
                    Some(5) => (tuple_type(vec![]), Some(5)),
                    _ => (huge_type(s.a ^ 5, &s.p), Some(6)),
                };
                match s.o {
                    O::Input => {
                        if !self.allow_inputs || self.inputs.len() >= 8 {
                            return Res::Skipped;
                        }
                        let tt = t.clone();
                        let r = self.call(pool, name, vv, || g.input(tt));
                        if let Res::Added(_) = r {
                            self.inputs.push((t, InKind::Plain));
                        }
                        r
                    }
                    O::Zeros => self.call(pool, name, vv, || g.zeros(t)),
                    O::Ones => self.call(pool, name, vv, || g.ones(t)),
                    _ => self.call(pool, name, vv, || g.random(t)),
                }
            }
            O::Const => {
                let leaf = leaf_type(st_from(s.p[0]), &shape_from(s.p[1], s.p[2]));
                let good = |t: &Type| Self::const_value(t, &InKind::Plain, seed ^ s.a as u64);
                let (t, val, vv) = match v.map(|x| x % 6) {
                    None => (leaf.clone(), good(&leaf), None),
                    Some(0) => {
                        let st = leaf_st(&leaf);
                        let mut b = encode_leaf(&vec![1u128; type_elems(&leaf)], st);
                        b.pop();
                        (leaf, Value::from_bytes(b), Some(0))
                    }
                    Some(1) => {
                        let st = leaf_st(&leaf);
                        let mut b = encode_leaf(&vec![1u128; type_elems(&leaf)], st);
                        b.push(0);
                        (leaf, Value::from_bytes(b), Some(1))
                    }
                    Some(2) => (leaf, Value::from_vector(vec![]), Some(2)),
                    Some(3) => {
                        let t = tuple_type(vec![leaf.clone(), vector_type(2, leaf)]);
                        let val = good(&t);
                        (t, val, Some(3))
                    }
                    Some(4) => (vector_type(0, leaf), Value::from_vector(vec![]), Some(4)),
                    _ => (invalid_type(s.a, &s.p), Value::from_bytes(vec![0]), Some(5)),
                };
                self.call(pool, name, vv, || g.constant(t, val))
            }
            O::RandomPerm => {
                let (n, vv) = match v.map(|x| x % 2) {
                    None => (1 + (s.p[0] % 6) as u64, None),
                    Some(0) => (0, Some(0)),
                    _ => (1 << 40, Some(1)),
                };
                self.call(pool, name, vv, || g.random_permutation(n))
            }
            O::Add | O::Sub | O::Mul => {
                let want0 = leaf_type(st_from(s.p[0]), &shape_from(s.p[1], s.p[2]));
                let ia = some!(self.opnd(pool, s.a, 0, wild, seed ^ 1, &want0, InKind::Plain, &|t: &Type| is_leaf(t)));
                let ta = pool.types[ia].clone();
                let (want, vv) = if is_leaf(&ta) {
                    let st = leaf_st(&ta);
                    let sa = leaf_shape(&ta);
                    let mut sv = sa.clone();
                    if !sv.is_empty() {
                        match s.p[1] % 4 {
                            0 => {
                                let k = (s.p[2] as usize) % sv.len();
                                sv[k] = 1;
                            }
                            1 => {
                                let k = (s.p[2] as usize) % sv.len();
                                sv = sv[k..].to_vec();
                            }
                            _ => {}
                        }
                    }
                    match v {
                        None => (leaf_type(st, &sv), None),
                        Some(x) => (perturb_type(&ta, x), Some(x % 8)),
                    }
                } else {
                    (want0, None)
                };
                let (st, sa) = if is_leaf(&ta) { (Some(leaf_st(&ta)), leaf_shape(&ta)) } else { (None, vec![]) };
                let force_fresh = if vv.is_some() { 2 } else { s.p[0] };
                let ib = some!(self.opnd(pool, s.b, force_fresh, wild, seed, &want, InKind::Plain, &|t: &Type| {
                    is_leaf(t) && Some(leaf_st(t)) == st && broadcastable(&leaf_shape(t), &sa) && (!is_huge(t) || leaf_shape(t) == sa)
                }));
                let (a, b) = (pool.nodes[ia].clone(), pool.nodes[ib].clone());
                let (a, b) = if s.p[1] & 8 != 0 { (b, a) } else { (a, b) };
                match s.o {
                    O::Add => self.call(pool, name, vv, || g.add(a, b)),
                    O::Sub => self.call(pool, name, vv, || g.subtract(a, b)),
                    _ => self.call(pool, name, vv, || g.multiply(a, b)),
                }
            }
            O::MixedMul => {
                let mut p = s.p;
                if st_from(p[0]) == BIT {
                    p[0] = 3;
                }
                let want0 = leaf_type(st_from(p[0]), &shape_from(p[1], p[2]));
                let ia = some!(self.opnd(pool, s.a, 0, wild, seed ^ 1, &want0, InKind::Plain, &|t: &Type| is_leaf(t) && leaf_st(t) != BIT));
                let ta = pool.types[ia].clone();
                let sa = if is_leaf(&ta) { leaf_shape(&ta) } else { vec![] };
                let (want, vv) = match v.map(|x| x % 4) {
                    None | Some(2) => (leaf_type(BIT, &sa), v.map(|_| 2)),
                    Some(0) => (leaf_type(ScalarType::U8, &sa), Some(0)),
                    Some(1) => (perturb_type(&leaf_type(BIT, &sa), 1), Some(1)),
                    _ => (scalar_type(BIT), Some(3)),
                };
                let sa2 = sa.clone();
                let ib = some!(self.opnd(pool, s.b, if vv.is_some() { 2 } else { s.p[0] }, wild, seed, &want, InKind::Plain, &move |t: &Type| {
                    is_leaf(t) && leaf_st(t) == BIT && broadcastable(&leaf_shape(t), &sa2) && !is_huge(t)
                }));
                let (a, b) = (pool.nodes[ia].clone(), pool.nodes[ib].clone());
                let (a, b) = if vv == Some(2) { (b, a) } else { (a, b) };
                self.call(pool, name, vv, || g.mixed_multiply(a, b))
            }
            O::Dot | O::Matmul | O::Gemm => {
                let dot = s.o == O::Dot;
                let gemm = s.o == O::Gemm;
                let mut p = s.p;
                if gemm && p[1] % 8 < 4 {
                    p[1] = 4 + p[1] % 4;
                }
                let want0 = if dot { leaf_type(st_from(p[0]), &shape_from(p[1], p[2])) } else { gen_array_type(&p) };
                let vsel = v.map(|x| x % 8);
                let ia = if vsel == Some(7) {
                    // rank-1 first operand
                    let t = array_type(vec![1 + (s.p[2] % 4) as u64], st_from(s.p[0]));
                    some!(self.fresh(pool, &t, InKind::Plain, seed ^ 7))
                } else {
                    some!(self.opnd(pool, s.a, 0, wild, seed ^ 1, &want0, InKind::Plain, &move |t: &Type| {
                        is_leaf(t) && !is_huge(t) && elems_of(t) <= 512 && (dot || !leaf_shape(t).is_empty()) && (!gemm || leaf_shape(t).len() >= 2)
                    }))
                };
                let ta = pool.types[ia].clone();
                if !is_leaf(&ta) {
                    let ib = some!(pool.pick_where(s.b, |_| true));
                    let (a, b) = (pool.nodes[ia].clone(), pool.nodes[ib].clone());
                    return match s.o {
                        O::Dot => self.call(pool, name, None, || g.dot(a, b)),
                        O::Matmul => self.call(pool, name, None, || g.matmul(a, b)),
                        _ => self.call(pool, name, None, || g.gemm(a, b, false, true)),
                    };
                }
                let mut st = leaf_st(&ta);
                let sa = leaf_shape(&ta);
                let m = 1 + (s.p[1] % 3) as u64;
                let (fa, fb) = (s.p[2] & 1 != 0, s.p[2] & 2 != 0);
                let mut sb: Vec<u64> = if sa.is_empty() {
                    shape_from(s.p[1], s.p[2])
                } else if dot {
                    let n = *sa.last().unwrap();
                    match s.p[1] % 3 {
                        0 => vec![n],
                        1 => vec![n, m],
                        _ => vec![2, n, m],
                    }
                } else if !gemm || sa.len() < 2 {
                    let n = *sa.last().unwrap();
                    match s.p[1] % 4 {
                        0 => vec![n],
                        1 => vec![n, m],
                        2 => {
                            let mut b: Vec<u64> = if sa.len() > 2 { sa[..sa.len() - 2].to_vec() } else { vec![2] };
                            if s.p[2] & 4 != 0 {
                                b[0] = 1;
                            }
                            b.push(n);
                            b.push(m);
                            b
                        }
                        _ => vec![1, n, m],
                    }
                } else {
                    let (r, c) = (sa[sa.len() - 2], sa[sa.len() - 1]);
                    let inner = if fa { r } else { c };
                    let mut b: Vec<u64> = match s.p[1] % 3 {
                        0 => vec![],
                        1 => sa[..sa.len() - 2].to_vec(),
                        _ => vec![1],
                    };
                    if fb {
                        b.push(m);
                        b.push(inner);
                    } else {
                        b.push(inner);
                        b.push(m);
                    }
                    b
                };
                let mut scalar_b = false;
                match vsel {
                    Some(0) => {
                        // inner dimension off by one
                        let k = if sb.len() >= 2 && !(gemm && fb) { sb.len() - 2 } else { sb.len().saturating_sub(1) };
                        if !sb.is_empty() {
                            sb[k] += 1;
                        }
                    }
                    Some(1) => sb = vec![*sa.last().unwrap_or(&2)],
                    Some(2) => scalar_b = true,
                    Some(3) => st = ALL_ST[(ALL_ST.iter().position(|x| *x == st).unwrap() + 2) % ALL_ST.len()],
                    Some(4) => sb.insert(0, 3),
                    Some(5) => sb.insert(0, 1),
                    Some(6) => {
                        sb.insert(0, 1);
                        sb.insert(0, 2);
                    }
                    _ => {}
                }
                if sb.iter().product::<u64>() > 2048 {
                    return Res::Skipped;
                }
                let want = if scalar_b { scalar_type(st) } else { leaf_type(st, &sb) };
                let w2 = want.clone();
                let ib = some!(self.opnd(pool, s.b, if vsel.is_some() { 2 } else { s.p[0] }, wild, seed, &want, InKind::Plain, &move |t: &Type| *t == w2));
                let (a, b) = (pool.nodes[ia].clone(), pool.nodes[ib].clone());
                match s.o {
                    O::Dot => self.call(pool, name, vsel, || g.dot(a, b)),
                    O::Matmul => self.call(pool, name, vsel, || g.matmul(a, b)),
                    _ => self.call(pool, name, vsel, || g.gemm(a, b, fa, fb)),
                }
            }
            O::Sum => {
                let ia = some!(self.arr(pool, s.a, s, wild, true));
                let rank = if is_arr(&pool.types[ia]) { leaf_shape(&pool.types[ia]).len() as u64 } else { 2 };
                let fit: Vec<u64> = (0..rank).filter(|i| (s.p[0] >> i) & 1 == 1).collect();
                let (axes, vv) = match v.map(|x| x % 7) {
                    None => (fit, None),
                    Some(0) => (vec![rank], Some(0)),
                    Some(1) => (vec![0, 0], Some(1)),
                    Some(2) => (vec![], Some(2)),
                    Some(3) => ((0..rank).collect(), Some(3)),
                    Some(4) => ((0..rank).rev().collect(), Some(4)),
                    Some(5) => (vec![u64::MAX], Some(5)),
                    _ => {
                        let mut f = fit;
                        f.push(rank);
                        (f, Some(6))
                    }
                };
                let a = pool.nodes[ia].clone();
                self.call(pool, name, vv, || g.sum(a, axes))
            }
            O::CumSum => {
                let ia = some!(self.arr(pool, s.a, s, wild, true));
                let rank = if is_arr(&pool.types[ia]) { leaf_shape(&pool.types[ia]).len() as u64 } else { 2 };
                let (axis, vv) = match v.map(|x| x % 2) {
                    None => (s.p[0] as u64 % rank, None),
                    Some(0) => (rank, Some(0)),
                    _ => (u64::MAX, Some(1)),
                };
                let a = pool.nodes[ia].clone();
                self.call(pool, name, vv, || g.cum_sum(a, axis))
            }
            O::Permute => {
                let ia = some!(self.arr(pool, s.a, s, wild, false));
                let rank = if is_arr(&pool.types[ia]) { leaf_shape(&pool.types[ia]).len() } else { 2 };
                let mut perm: Vec<u64> = (0..rank as u64).collect();
                let mut q = s.p[0] as usize;
                for i in (1..rank).rev() {
                    perm.swap(i, q % (i + 1));
                    q /= i + 1;
                }
                let vv = v.map(|x| x % 5);
                match vv {
                    Some(0) => {
                        perm.pop();
                    }
                    Some(1) => {
                        let l = perm.len();
                        perm[l - 1] = perm[0];
                    }
                    Some(2) => perm[0] = rank as u64,
                    Some(3) => perm.clear(),
                    Some(4) => perm.push(rank as u64),
                    _ => {}
                }
                let a = pool.nodes[ia].clone();
                self.call(pool, name, vv, || g.permute_axes(a, perm))
            }
            O::Get => {
                let ia = some!(self.arr(pool, s.a, s, wild, true));
                let sh = if is_arr(&pool.types[ia]) { leaf_shape(&pool.types[ia]) } else { vec![2, 2] };
                let len = 1 + (s.p[0] as usize) % sh.len();
                let mut idx: Vec<u64> = (0..len).map(|i| (s.p[1 + i % 3] as u64 >> i) % sh[i]).collect();
                let vv = v.map(|x| x % 5);
                match vv {
                    Some(0) => {
                        let k = (s.p[3] as usize) % idx.len();
                        idx[k] = sh[k];
                    }
                    Some(1) => {
                        idx = sh.iter().map(|_| 0).collect();
                        idx.push(0);
                    }
                    Some(2) => idx.clear(),
                    Some(3) => idx = sh.iter().map(|d| d - 1).collect(),
                    Some(4) => idx[0] = u64::MAX,
                    _ => {}
                }
                let a = pool.nodes[ia].clone();
                self.call(pool, name, vv, || g.get(a, idx))
            }
            O::Slice => {
                let ia = some!(self.arr(pool, s.a, s, wild, false));
                let sh = if is_arr(&pool.types[ia]) { leaf_shape(&pool.types[ia]) } else { vec![2, 2] };
                let mut q = seed ^ ((s.p[0] as u64) << 48) ^ ((s.p[1] as u64) << 20);
                let mut sl = vec![];
                let mut ell = false;
                for d in &sh {
                    let r = splitmix(&mut q);
                    let d = *d as i64;
                    match r % 8 {
                        0 => sl.push(SliceElement::SingleIndex(((r >> 8) as i64).rem_euclid(2 * d) - d)),
                        1 if !ell => {
                            ell = true;
                            sl.push(SliceElement::Ellipsis);
                            if (r >> 9) & 1 == 1 {
                                break;
                            }
                        }
                        2 => sl.push(SliceElement::SubArray(None, None, Some(-1))),
                        3 => sl.push(SliceElement::SubArray(None, None, None)),
                        _ => {
                            let a = ((r >> 8) as i64).rem_euclid(2 * d + 2) - d - 1;
                            let b = ((r >> 20) as i64).rem_euclid(2 * d + 2) - d - 1;
                            let st = [1i64, 2, -1, -2, 3][((r >> 32) % 5) as usize];
                            sl.push(SliceElement::SubArray(
                                if (r >> 40) & 1 == 1 { Some(a) } else { None },
                                if (r >> 41) & 1 == 1 { Some(b) } else { None },
                                Some(st),
                            ));
                        }
                    }
                }
                let d0 = sh[0] as i64;
                let vv = v.map(|x| x % 12);
                let sub = |a, b, c| SliceElement::SubArray(a, b, c);
                match vv {
                    Some(0) => sl = vec![sub(None, None, Some(0))],
                    Some(1) => sl = vec![sub(Some(1.min(d0 - 1)), None, Some(i64::MAX))],
                    Some(2) => sl = vec![sub(None, None, Some(i64::MIN))],
                    Some(3) => sl = vec![sub(Some(i64::MIN), Some(i64::MAX), None)],
                    Some(4) => sl = sh.iter().map(|_| sub(None, None, None)).chain(std::iter::once(SliceElement::SingleIndex(0))).collect(),
                    Some(5) => sl = vec![SliceElement::Ellipsis, SliceElement::Ellipsis],
                    Some(6) => sl = vec![SliceElement::SingleIndex(d0)],
                    Some(7) => sl = vec![SliceElement::SingleIndex(-d0 - 1)],
                    Some(8) => sl = vec![sub(Some(1.min(d0 - 1)), Some(1.min(d0 - 1)), None)],
                    Some(9) => sl = vec![sub(Some(i64::MAX), None, Some(-1))],
                    Some(10) => sl = vec![sub(Some(0), Some(i64::MIN), Some(-(1 + (s.p[2] % 3) as i64)))],
                    Some(11) => sl = vec![sub(Some(d0 - 1), None, Some(i64::MAX - (s.p[2] % 2) as i64))],
                    _ => {}
                }
                let a = pool.nodes[ia].clone();
                self.call(pool, name, vv, || g.get_slice(a, sl))
            }
            O::Reshape => {
                let want0 = gen_array_type(&s.p);
                let ia = some!(self.opnd(pool, s.a, if s.p[2] % 5 == 0 { 2 } else { 0 }, wild, seed ^ 1, &want0, InKind::Plain, &|t: &Type| {
                    expanded_count(t) <= 256 && max_dim(t) <= BIG
                }));
                let t = pool.types[ia].clone();
                if expanded_count(&t) > 256 || max_dim(&t) > BIG {
                    return Res::Skipped;
                }
                let leaves = flatten_leaves(&t);
                let vv = v.map(|x| x % 8);
                let refactor = |lt: &Type, q0: u16, q1: u16| -> Type {
                    let n = elems_of(lt);
                    let mut dims = vec![];
                    let mut rest = n;
                    let mut q = q0 as u64;
                    for f in [2u64, 3, 2, 5, 2, 3] {
                        if rest % f == 0 && q & 1 == 1 {
                            dims.push(f);
                            rest /= f;
                        }
                        q >>= 1;
                    }
                    dims.push(rest);
                    if q1 & 1 == 1 {
                        dims.reverse();
                    }
                    if q1 & 2 == 2 {
                        dims.insert((q1 as usize >> 2) % (dims.len() + 1), 1);
                    }
                    if n == 1 && q1 & 4 == 4 {
                        return scalar_type(leaf_st(lt));
                    }
                    array_type(dims, leaf_st(lt))
                };
                let new_t: Type = if is_leaf(&t) {
                    let n = elems_of(&t);
                    let st = leaf_st(&t);
                    match vv {
                        None => refactor(&t, s.p[0], s.p[1]),
                        Some(0) => array_type(vec![n + 1], st),
                        Some(1) => perturb_type(&refactor(&t, s.p[0], s.p[1]), 0),
                        Some(2) => scalar_type(st),
                        Some(3) => array_type(vec![0, n], st),
                        Some(4) => array_type(vec![], st),
                        Some(5) => tuple_type(vec![refactor(&t, s.p[0], s.p[1])]),
                        Some(6) => vector_type(1, t.clone()),
                        _ => vector_type(n, scalar_type(st)),
                    }
                } else {
                    let re: Vec<Type> = leaves.iter().enumerate().map(|(i, l)| refactor(l, s.p[0].rotate_left(i as u32), s.p[1].rotate_left(i as u32))).collect();
                    match vv {
                        None | Some(5) | Some(6) => match s.p[2] % 3 {
                            0 => tuple_type(re),
                            1 => named_tuple_type(re.into_iter().enumerate().map(|(i, x)| (format!("f{}", i), x)).collect()),
                            _ => {
                                if !re.is_empty() && re.iter().all(|x| *x == re[0]) {
                                    vector_type(re.len() as u64, re[0].clone())
                                } else {
                                    tuple_type(vec![tuple_type(re), tuple_type(vec![])])
                                }
                            }
                        },
                        Some(0) => {
                            let mut r = re;
                            r.push(scalar_type(BIT));
                            tuple_type(r)
                        }
                        Some(1) => {
                            let mut r = re;
                            r.reverse();
                            tuple_type(r)
                        }
                        Some(2) => named_tuple_type(re.into_iter().map(|x| ("d".to_string(), x)).collect()),
                        Some(3) => vector_type(0, scalar_type(BIT)),
                        Some(4) => tuple_type(vec![]),
                        _ => {
                            let mut r = re;
                            r.pop();
                            tuple_type(r)
                        }
                    }
                };
                let a = pool.nodes[ia].clone();
                self.call(pool, name, vv, || g.reshape(a, new_t))
            }
            O::Truncate => {
                let mut p = s.p;
                if st_from(p[0]) == BIT && v.is_none() {
                    p[0] = 4;
                }
                let want0 = leaf_type(st_from(p[0]), &shape_from(p[1], p[2]));
                let ia = some!(self.opnd(pool, s.a, 0, wild, seed ^ 1, &want0, InKind::Plain, &|t: &Type| is_leaf(t) && (leaf_st(t) != BIT || s.p[3] % 8 == 0)));
                let (scale, vv) = match v.map(|x| x % 6) {
                    None => (
                        match s.p[0] % 4 {
                            0 => 1u128 << (s.p[1] % 7),
                            1 => 3,
                            2 => 10,
                            _ => 1 + s.p[1] as u128,
                        },
                        None,
                    ),
                    Some(0) => (0, Some(0)),
                    Some(1) => (1u128 << 127, Some(1)),
                    Some(2) => (i128::MAX as u128, Some(2)),
                    Some(3) => (u128::MAX, Some(3)),
                    Some(4) => (1, Some(4)),
                    _ => (1u128 << (s.p[1] % 128), Some(5)),
                };
                let a = pool.nodes[ia].clone();
                self.call(pool, name, vv, || g.truncate(a, scale))
            }
            O::Repeat => {
                let ia = some!(self.opnd(pool, s.a, 0, true, seed, &gen_type(&s.p), InKind::Plain, &|_| true));
                let (n, vv) = match v.map(|x| x % 3) {
                    None => (1 + (s.p[0] % 3) as u64, None),
                    Some(0) => (0, Some(0)),
                    Some(1) => (1 << 40, Some(1)),
                    _ => (u64::MAX, Some(2)),
                };
                let a = pool.nodes[ia].clone();
                self.call(pool, name, vv, || g.repeat(a, n))
            }
            O::A2B => {
                let mut p = s.p;
                if st_from(p[0]) == BIT {
                    p[0] = 2;
                }
                let want0 = leaf_type(st_from(p[0]), &shape_from(p[1], p[2]));
                let bit_ok = v.map(|x| x % 2) == Some(0);
                let ia = some!(self.opnd(pool, s.a, 0, wild || v.map(|x| x % 2) == Some(1), seed ^ 1, &want0, InKind::Plain, &move |t: &Type| {
                    is_leaf(t) && ((leaf_st(t) == BIT) == bit_ok) && elems_of(t) <= 256
                }));
                let a = pool.nodes[ia].clone();
                self.call(pool, name, v.map(|x| x % 2), || g.a2b(a))
            }
            O::B2A => {
                let w = [8u64, 16, 32, 64, 128][(s.p[0] % 5) as usize];
                let mut sh = shape_from(s.p[1], s.p[2]);
                sh.truncate(2);
                let vv = v.map(|x| x % 4);
                sh.push(if vv == Some(2) { w - 1 } else { w });
                let want = array_type(sh, BIT);
                let ia = some!(self.opnd(pool, s.a, if vv == Some(2) { 2 } else { 0 }, wild, seed, &want, InKind::Plain, &|t: &Type| {
                    is_arr(t) && leaf_st(t) == BIT && matches!(leaf_shape(t).last(), Some(8 | 16 | 32 | 64 | 128))
                }));
                let w = if is_arr(&pool.types[ia]) { *leaf_shape(&pool.types[ia]).last().unwrap() } else { w };
                let signed = s.p[0] & 8 != 0;
                let fit_st = ALL_ST.iter().copied().find(|x| bits(*x) as u64 == w && is_signed(*x) == signed).unwrap_or(ScalarType::U8);
                let st = match vv {
                    Some(0) => ALL_ST.iter().copied().find(|x| *x != BIT && bits(*x) as u64 != w).unwrap(),
                    Some(1) => BIT,
                    _ => fit_st,
                };
                let a = pool.nodes[ia].clone();
                self.call(pool, name, vv, || g.b2a(a, st))
            }
            O::A2V => {
                let scalar = v.is_some();
                let ia = if scalar {
                    some!(self.opnd(pool, s.a, 0, wild, seed, &scalar_type(st_from(s.p[0])), InKind::Plain, &|t: &Type| matches!(t, Type::Scalar(_))))
                } else {
                    some!(self.arr(pool, s.a, s, wild, true))
                };
                let a = pool.nodes[ia].clone();
                self.call(pool, name, v.map(|_| 0), || g.array_to_vector(a))
            }
            O::V2A => {
                let leaf = leaf_type(st_from(s.p[0]), &shape_from(s.p[1], s.p[2]));
                let vv = v.map(|x| x % 3);
                let want = match vv {
                    None => vector_type(1 + (s.p[3] % 3) as u64, leaf),
                    Some(0) => vector_type(0, leaf),
                    Some(1) => vector_type(2, tuple_type(vec![leaf])),
                    _ => vector_type(2, vector_type(2, leaf)),
                };
                let w2 = want.clone();
                let ia = some!(self.opnd(pool, s.a, if vv.is_some() { 2 } else { 0 }, wild, seed, &want, InKind::Plain, &move |t: &Type| {
                    matches!(t, Type::Vector(n, e) if *n > 0 && *n <= 64 && is_leaf(e)) || *t == w2
                }));
                let a = pool.nodes[ia].clone();
                self.call(pool, name, vv, || g.vector_to_array(a))
            }
            O::Nop | O::Print => {
                let ia = some!(self.opnd(pool, s.a, 0, true, seed, &gen_type(&s.p), InKind::Plain, &|_| true));
                let a = pool.nodes[ia].clone();
                if s.o == O::Nop {
                    self.call(pool, name, None, || a.nop())
                } else {
                    self.call(pool, name, None, || g.print(format!("m{}", s.p[0] % 3), a))
                }
            }
            O::Assert => {
                let vv = v.map(|x| x % 3);
                let ct = match vv {
                    None => scalar_type(BIT),
                    Some(0) => array_type(vec![1], BIT),
                    Some(1) => scalar_type(ScalarType::U8),
                    _ => tuple_type(vec![scalar_type(BIT)]),
                };
                let ic = if vv.is_none() && s.p[0] % 4 != 0 {
                    // a true condition most of the time
                    match self.call(pool, "Ones", None, || g.ones(scalar_type(BIT))) {
                        Res::Added(i) => i,
                        _ => return Res::Skipped,
                    }
                } else {
                    let c2 = ct.clone();
                    some!(self.opnd(pool, s.b, s.p[1], wild, seed, &ct, InKind::Plain, &move |t: &Type| *t == c2))
                };
                let ia = some!(pool.pick_where(s.a, |_| true));
                let (c, a) = (pool.nodes[ic].clone(), pool.nodes[ia].clone());
                self.call(pool, name, vv, || g.assert(format!("a{}", s.p[0] % 3), c, a))
            }
            O::MkTuple | O::MkNamed => {
                let k = (s.p[0] % 4) as usize;
                let sels = [s.a, s.b, s.c];
                let mut parts = vec![];
                for sel in sels.iter().take(k.min(3)) {
                    let i = some!(self.opnd(pool, *sel, 0, true, seed, &gen_type(&s.p), InKind::Plain, &|_| true));
                    parts.push(pool.nodes[i].clone());
                }
                if s.o == O::MkTuple {
                    self.call(pool, name, None, || g.create_tuple(parts))
                } else {
                    let vv = v.map(|x| x % 2);
                    let names = if vv == Some(0) { ["x", "x", "z"] } else { ["x", "y", "z"] };
                    if vv == Some(1) {
                        parts.clear();
                    }
                    let el: Vec<(String, Node)> = parts.into_iter().enumerate().map(|(i, n)| (names[i].to_string(), n)).collect();
                    self.call(pool, name, vv, || g.create_named_tuple(el))
                }
            }
            O::MkVector => {
                let ia = some!(self.opnd(pool, s.a, 0, true, seed, &gen_type(&s.p), InKind::Plain, &|_| true));
                let ta = pool.types[ia].clone();
                let k = (s.p[0] % 4) as usize;
                let sels = [s.a, s.b, s.c];
                let mut parts = vec![];
                let vv = v.map(|x| x % 3);
                for j in 0..k.min(3) {
                    let i = if j == 0 {
                        ia
                    } else if vv == Some(0) {
                        pool.pick_where(sels[j], |t| *t != ta).unwrap_or(ia)
                    } else {
                        pool.pick_where(sels[j], |t| *t == ta).unwrap_or(ia)
                    };
                    parts.push(pool.nodes[i].clone());
                }
                let et = match vv {
                    Some(1) => perturb_type(&ta, s.p[1] as usize),
                    Some(2) => {
                        parts.clear();
                        ta
                    }
                    _ => ta,
                };
                self.call(pool, name, vv, || g.create_vector(et, parts))
            }
            O::TupleGet => {
                let vv = v.map(|x| x % 3);
                let want = tuple_type(vec![gen_type(&s.p), scalar_type(BIT)]);
                let ia = if vv == Some(1) {
                    some!(self.opnd(pool, s.a, 0, wild, seed, &vector_type(2, scalar_type(BIT)), InKind::Plain, &|t: &Type| matches!(t, Type::Vector(_, _))))
                } else {
                    some!(self.opnd(pool, s.a, 0, wild, seed, &want, InKind::Plain, &|t: &Type| {
                        matches!(t, Type::Tuple(ts) if !ts.is_empty()) || matches!(t, Type::NamedTuple(ts) if !ts.is_empty())
                    }))
                };
                let n = match &pool.types[ia] {
                    Type::Tuple(ts) => ts.len(),
                    Type::NamedTuple(ts) => ts.len(),
                    _ => 2,
                }
                .max(1) as u64;
                let idx = match vv {
                    Some(0) => n,
                    Some(2) => u64::MAX,
                    _ => s.p[0] as u64 % n,
                };
                let a = pool.nodes[ia].clone();
                self.call(pool, name, vv, || g.tuple_get(a, idx))
            }
            O::NamedGet => {
                let vv = v.map(|x| x % 2);
                let want = named_tuple_type(vec![("x".to_string(), gen_type(&s.p)), ("y".to_string(), scalar_type(BIT))]);
                let ia = if vv == Some(1) {
                    some!(self.opnd(pool, s.a, 0, wild, seed, &tuple_type(vec![scalar_type(BIT)]), InKind::Plain, &|t: &Type| matches!(t, Type::Tuple(_))))
                } else {
                    some!(self.opnd(pool, s.a, 0, wild, seed, &want, InKind::Plain, &|t: &Type| matches!(t, Type::NamedTuple(ts) if !ts.is_empty())))
                };
                let names: Vec<String> = match &pool.types[ia] {
                    Type::NamedTuple(ts) => ts.iter().map(|(n, _)| n.clone()).collect(),
                    _ => vec!["x".to_string()],
                };
                let nm = if vv == Some(0) || names.is_empty() { "nope".to_string() } else { names[s.p[0] as usize % names.len()].clone() };
                let a = pool.nodes[ia].clone();
                self.call(pool, name, vv, || g.named_tuple_get(a, nm))
            }
            O::VectorGet => {
                let vv = v.map(|x| x % 6);
                let want = vector_type(if vv == Some(3) { 0 } else { 1 + (s.p[2] % 3) as u64 }, gen_type(&[s.p[0], s.p[1], s.p[2], 0]));
                let empty_ok = vv == Some(3);
                let ia = some!(self.opnd(pool, s.a, if empty_ok { 2 } else { 0 }, wild, seed ^ 1, &want, InKind::Plain, &|t: &Type| matches!(t, Type::Vector(n, _) if *n > 0 && *n < 64)));
                let n = match &pool.types[ia] {
                    Type::Vector(n, _) => *n,
                    _ => 2,
                };
                let ist = match vv {
                    Some(0) => ScalarType::U8,
                    Some(1) => ScalarType::I64,
                    _ => [UINT64, ScalarType::U32][(s.p[1] % 2) as usize],
                };
                let it = if vv == Some(2) { array_type(vec![1], UINT64) } else { scalar_type(ist) };
                let ii = if s.p[3] % 3 == 0 && vv != Some(4) {
                    // data-dependent index: sometimes == n (documented runtime error)
                    some!(self.fresh(pool, &it, InKind::Small { bound: if s.p[3] % 2 == 0 { n } else { n.saturating_sub(1) } }, seed))
                } else {
                    let idx = if vv == Some(4) { n } else if n == 0 { 0 } else { s.p[0] as u64 % n };
                    let val = Value::from_bytes(encode_leaf(&[idx as u128], leaf_st(&it)));
                    let it2 = it.clone();
                    match self.call(pool, "Const", None, || g.constant(it2, val)) {
                        Res::Added(i) => i,
                        _ => return Res::Skipped,
                    }
                };
                let (a, i) = (pool.nodes[ia].clone(), pool.nodes[ii].clone());
                self.call(pool, name, vv, || g.vector_get(a, i))
            }
            O::Zip => {
                let vv = v.map(|x| x % 4);
                let want = vector_type((s.p[2] % 4) as u64, gen_type(&[s.p[0], s.p[1], s.p[2], 0]));
                let ia = some!(self.opnd(pool, s.a, s.p[3], wild, seed ^ 1, &want, InKind::Plain, &|t: &Type| matches!(t, Type::Vector(n, _) if *n < 64)));
                let n = match &pool.types[ia] {
                    Type::Vector(n, _) => *n,
                    _ => 1,
                };
                let mut parts = vec![pool.nodes[ia].clone()];
                match vv {
                    Some(0) => {}
                    Some(1) => {
                        let w = vector_type(n + 1, scalar_type(BIT));
                        let ib = some!(self.fresh(pool, &w, InKind::Plain, seed));
                        parts.push(pool.nodes[ib].clone());
                    }
                    Some(2) => {
                        let ib = some!(pool.pick_where(s.b, |t| !matches!(t, Type::Vector(_, _))));
                        parts.push(pool.nodes[ib].clone());
                    }
                    _ => {
                        let k = if vv == Some(3) { 2 } else { 1 };
                        for j in 0..k {
                            let sel = if j == 0 { s.b } else { s.c };
                            let ib = pool.pick_where(sel, |t| matches!(t, Type::Vector(m, _) if *m == n)).unwrap_or(ia);
                            parts.push(pool.nodes[ib].clone());
                        }
                    }
                }
                self.call(pool, name, vv, || g.zip(parts))
            }
            O::Stack => {
                let want0 = leaf_type(st_from(s.p[0]), &shape_from(s.p[1], s.p[2]));
                let ia = some!(self.opnd(pool, s.a, 0, wild, seed ^ 1, &want0, InKind::Plain, &|t: &Type| is_leaf(t) && (!is_huge(t) || s.p[3] % 4 == 0)));
                let ta = pool.types[ia].clone();
                let (st, sa) = if is_leaf(&ta) { (Some(leaf_st(&ta)), leaf_shape(&ta)) } else { (None, vec![]) };
                let k = 1 + (s.p[0] % 3) as usize;
                let vv = v.map(|x| x % 7);
                let mut parts = vec![pool.nodes[ia].clone()];
                for j in 1..k {
                    let sel = if j == 1 { s.b } else { s.c };
                    let ib = match vv {
                        Some(4) => pool.pick_where(sel, |t| is_leaf(t) && Some(leaf_st(t)) == st && !broadcastable(&leaf_shape(t), &sa)),
                        Some(5) => pool.pick_where(sel, |t| is_leaf(t) && Some(leaf_st(t)) != st),
                        _ => pool.pick_where(sel, |t| is_leaf(t) && Some(leaf_st(t)) == st && broadcastable(&leaf_shape(t), &sa) && !is_huge(t)),
                    }
                    .unwrap_or(ia);
                    parts.push(pool.nodes[ib].clone());
                }
                let kk = k as u64;
                let outer = match vv {
                    Some(0) => vec![kk + 1],
                    Some(1) => vec![kk, 0],
                    Some(2) => vec![],
                    Some(3) => {
                        parts.clear();
                        vec![1]
                    }
                    Some(6) => vec![kk, 2],
                    _ => match s.p[1] % 3 {
                        0 => vec![kk],
                        1 => vec![1, kk],
                        _ => vec![kk, 1],
                    },
                };
                self.call(pool, name, vv, || g.stack(parts, outer))
            }
            O::Concat => {
                let vv = v.map(|x| x % 7);
                let ia = if vv == Some(5) {
                    some!(self.opnd(pool, s.a, 0, wild, seed, &scalar_type(st_from(s.p[0])), InKind::Plain, &|t: &Type| matches!(t, Type::Scalar(_))))
                } else {
                    some!(self.arr(pool, s.a, s, wild, s.p[3] % 4 == 0))
                };
                let ta = pool.types[ia].clone();
                let (st, sa) = if is_arr(&ta) { (Some(leaf_st(&ta)), leaf_shape(&ta)) } else { (None, vec![2]) };
                // variant 6: a dimension BEFORE the concatenation axis differs (needs rank >= 2)
                let vv = if vv == Some(6) && (sa.len() < 2 || !is_arr(&ta)) { None } else { vv };
                let axis = if vv == Some(6) { 1 + (s.p[0] as usize) % (sa.len() - 1) } else { (s.p[0] as usize) % sa.len() };
                let sa2 = sa.clone();
                let ok = move |t: &Type| {
                    t.is_array() && Some(leaf_st(t)) == st && {
                        let sb = leaf_shape(t);
                        sb.len() == sa2.len() && (0..sa2.len()).all(|i| i == axis || sa2[i] == sb[i])
                    }
                };
                let k = if vv == Some(1) { 1 } else { 2 + (s.p[1] % 2) as usize };
                let mut parts = vec![pool.nodes[ia].clone()];
                for j in 1..k {
                    let sel = if j == 1 { s.b } else { s.c };
                    let ib = match vv {
                        Some(2) | Some(3) | Some(4) if j == 1 && is_arr(&ta) => {
                            let w = perturb_type(&ta, [3usize, 6, 0][vv.unwrap() - 2]);
                            some!(self.fresh(pool, &w, InKind::Plain, seed))
                        }
                        Some(6) if j == 1 => {
                            // first dimension differs by +1 or -1 (axis >= 1)
                            let mut w = sa.clone();
                            if s.p[2] & 1 == 0 || w[0] == 1 { w[0] += 1 } else { w[0] -= 1 }
                            some!(self.fresh(pool, &leaf_type(st.unwrap(), &w), InKind::Plain, seed))
                        }
                        _ => pool.pick_where(sel, &ok).unwrap_or(ia),
                    };
                    parts.push(pool.nodes[ib].clone());
                }
                let ax = if vv == Some(0) { sa.len() as u64 } else { axis as u64 };
                self.call(pool, name, vv, || g.concatenate(parts, ax))
            }
            O::Gather => {
                let ia = some!(self.arr(pool, s.a, s, wild, s.p[3] % 8 == 0));
                let sh = if is_arr(&pool.types[ia]) { leaf_shape(&pool.types[ia]) } else { vec![3] };
                let vv = v.map(|x| x % 7);
                let axis = if vv == Some(0) { sh.len() as u64 } else { s.p[0] as u64 % sh.len() as u64 };
                let d = sh[(axis as usize).min(sh.len() - 1)].min(64);
                let cnt = match vv {
                    Some(1) => d + 1,
                    _ => 1 + s.p[1] as u64 % d,
                };
                let ist = match vv {
                    Some(2) => ScalarType::I32,
                    Some(3) => ScalarType::U128,
                    Some(4) => BIT,
                    _ => [UINT64, ScalarType::U32, ScalarType::U16, ScalarType::U8][(s.p[2] % 4) as usize],
                };
                let it = if vv == Some(5) {
                    scalar_type(ist)
                } else if vv == Some(6) || (cnt % 2 == 0 && s.p[2] & 4 != 0) {
                    array_type(vec![(cnt / 2).max(1), if cnt >= 2 { 2 } else { 1 }], ist)
                } else {
                    array_type(vec![cnt], ist)
                };
                let ii = some!(self.fresh(pool, &it, InKind::Index { bound: d, ok: s.p[3] % 4 != 1 }, seed));
                let (a, i) = (pool.nodes[ia].clone(), pool.nodes[ii].clone());
                self.call(pool, name, vv, || g.gather(a, i, axis))
            }
            O::CuckooHash => {
                let vv = v.map(|x| x % 9);
                let w = 1 + (s.p[0] % 6) as u64;
                let n = 1 + (s.p[1] % 4) as u64;
                let mut ish = if s.p[2] % 3 == 0 { vec![2, n, w] } else { vec![n, w] };
                let mut hsh = vec![3 + (s.p[2] % 2) as u64, 1 + (s.p[3] % 4) as u64, w];
                let mut ist = BIT;
                match vv {
                    Some(0) => hsh[0] = 2,
                    Some(1) => hsh[1] = 64,
                    Some(2) => hsh[1] = 63,
                    Some(3) => hsh[2] = w + 1,
                    Some(4) => ish = vec![w],
                    Some(5) => ist = ScalarType::U8,
                    Some(6) => hsh = vec![3, w],
                    Some(7) => hsh[1] = 40,
                    Some(8) => hsh[1] = 62,
                    _ => {}
                }
                let ia = some!(self.fresh(pool, &array_type(ish, ist), InKind::Plain, seed ^ 1));
                let ih = some!(self.fresh(pool, &array_type(hsh, BIT), InKind::Plain, seed));
                let (a, h) = (pool.nodes[ia].clone(), pool.nodes[ih].clone());
                self.call(pool, name, vv, || g.cuckoo_hash(a, h))
            }
            O::SegmentCumSum => {
                let ia = some!(self.arr(pool, s.a, s, wild, false));
                let ta = pool.types[ia].clone();
                let (st, sh) = if is_arr(&ta) { (leaf_st(&ta), leaf_shape(&ta)) } else { (BIT, vec![2]) };
                let vv = v.map(|x| x % 6);
                let bt = match vv {
                    Some(0) => array_type(vec![sh[0] + 1], BIT),
                    Some(1) => array_type(vec![sh[0]], ScalarType::U8),
                    Some(5) => array_type(vec![sh[0], 1], BIT),
                    _ => array_type(vec![sh[0]], BIT),
                };
                let rest = sh[1..].to_vec();
                let ft = match vv {
                    Some(2) => leaf_type(if st == BIT { ScalarType::U8 } else { BIT }, &rest),
                    Some(3) => perturb_type(&leaf_type(st, &rest), 1),
                    Some(4) => {
                        if rest.is_empty() {
                            array_type(vec![1], st)
                        } else {
                            scalar_type(st)
                        }
                    }
                    _ => leaf_type(st, &rest),
                };
                let ib = some!(self.fresh(pool, &bt, InKind::Plain, seed ^ 2));
                let f2 = ft.clone();
                let ifr = some!(self.opnd(pool, s.c, s.p[0], false, seed, &ft, InKind::Plain, &move |t: &Type| *t == f2));
                let (a, b, f) = (pool.nodes[ia].clone(), pool.nodes[ib].clone(), pool.nodes[ifr].clone());
                self.call(pool, name, vv, || g.segment_cumsum(a, b, f))
            }
            O::InvPerm => {
                let vv = v.map(|x| x % 5);
                let n = 1 + (s.p[0] % 6) as u64;
                let ust = [UINT64, ScalarType::U32, ScalarType::U16, ScalarType::U8][(s.p[1] % 4) as usize];
                let t = match vv {
                    None => array_type(vec![n], ust),
                    Some(0) => array_type(vec![n, 2], ust),
                    Some(1) => array_type(vec![n], ScalarType::I32),
                    Some(2) => array_type(vec![n], ScalarType::U128),
                    Some(3) => array_type(vec![n], BIT),
                    _ => scalar_type(ust),
                };
                let t2 = t.clone();
                let ia = some!(self.opnd(pool, s.a, s.p[2], wild, seed, &t, InKind::Perm { exact: s.p[3] % 4 != 0 }, &move |x: &Type| *x == t2));
                let a = pool.nodes[ia].clone();
                self.call(pool, name, vv, || g.inverse_permutation(a))
            }
            O::CuckooToPerm => {
                let vv = v.map(|x| x % 2);
                let m = 1 + (s.p[0] % 6) as u64;
                let t = match vv {
                    None => {
                        if s.p[1] % 3 == 0 {
                            array_type(vec![2, m], UINT64)
                        } else {
                            array_type(vec![m], UINT64)
                        }
                    }
                    Some(0) => array_type(vec![m], ScalarType::U32),
                    _ => scalar_type(UINT64),
                };
                let t2 = t.clone();
                let ia = some!(self.opnd(pool, s.a, s.p[2], wild, seed, &t, InKind::Cuckoo { ok: s.p[3] % 4 != 0 }, &move |x: &Type| *x == t2));
                let a = pool.nodes[ia].clone();
                self.call(pool, name, vv, || g.cuckoo_to_permutation(a))
            }
            O::DecomposeSM => {
                let vv = v.map(|x| x % 5);
                let m = 1 + (s.p[0] % 5) as u64;
                let (sh, n) = match vv {
                    None => {
                        let n = m + (s.p[1] % 3) as u64;
                        (if s.p[2] % 3 == 0 { vec![m.min(n), m] } else { vec![m] }, n)
                    }
                    Some(0) => (vec![m + 1], m),
                    Some(1) => (vec![m], 0),
                    Some(2) => (vec![1, m + 1], m),
                    Some(3) => (vec![m], m),
                    _ => (vec![m], m + 1),
                };
                let st = if vv == Some(3) { ScalarType::U32 } else { UINT64 };
                let t = array_type(sh, st);
                let bound = if s.p[3] % 4 == 0 { n } else { n.saturating_sub(1) };
                let ia = some!(self.fresh(pool, &t, InKind::Small { bound }, seed));
                let a = pool.nodes[ia].clone();
                self.call(pool, name, vv, || g.decompose_switching_map(a, n))
            }
            O::Shard | O::ShardMasks => {
                let masks = s.o == O::ShardMasks;
                let vv = v.map(|x| x % 9);
                let n = 1 + (s.p[0] % 4) as u64;
                let names = ["a", "b", "k"];
                let ncols = 1 + (s.p[1] % 3) as usize;
                let mut cols: Vec<(String, Node)> = vec![];
                for (j, nm) in names.iter().enumerate().take(ncols) {
                    let st = st_from(s.p[2].rotate_left(j as u32 * 3));
                    let mut sh = vec![n];
                    if (s.p[3] >> j) & 1 == 1 {
                        sh.push(2);
                    }
                    let dt = array_type(sh, st);
                    let ct = if masks {
                        let mt = match (vv, j) {
                            (Some(7), 0) => scalar_type(BIT),
                            (Some(8), 0) => tuple_type(vec![array_type(vec![n], BIT)]),
                            _ => array_type(vec![n], BIT),
                        };
                        tuple_type(vec![mt, dt])
                    } else {
                        dt
                    };
                    let i = some!(self.fresh(pool, &ct, InKind::Plain, seed ^ j as u64));
                    cols.push((nm.to_string(), pool.nodes[i].clone()));
                }
                let it = match self.call(pool, "MkNamed", None, || g.create_named_tuple(cols)) {
                    Res::Added(i) => i,
                    _ => return Res::Skipped,
                };
                let mut cfg = ShardConfig {
                    num_shards: 1 + (s.p[1] >> 4) as u64 % 3,
                    shard_size: n + (s.p[2] >> 6) as u64 % 2,
                    shard_headers: names.iter().take(1 + (s.p[0] >> 5) as usize % ncols).map(|x| x.to_string()).collect(),
                };
                match vv {
                    Some(0) => {
                        cfg.num_shards = 1;
                        cfg.shard_size = n - 1;
                    }
                    Some(1) => cfg.shard_headers.clear(),
                    Some(2) => cfg.shard_headers.push(cfg.shard_headers[0].clone()),
                    Some(3) => cfg.shard_headers.push("zz".to_string()),
                    Some(4) => {
                        cfg.shard_size = 1 << 63;
                        cfg.num_shards = 2;
                    }
                    Some(5) => cfg.num_shards = 0,
                    Some(6) => {
                        cfg.shard_size = 1 << 40;
                        cfg.num_shards = 3;
                    }
                    _ => {}
                }
                let a = pool.nodes[it].clone();
                if masks {
                    self.call(pool, name, vv, || g.shard_with_column_masks(a, cfg))
                } else {
                    self.call(pool, name, vv, || g.shard(a, cfg))
                }
            }
            O::ApplyPerm => {
                let vv = v.map(|x| x % 6);
                let ia = if vv == Some(4) {
                    some!(self.opnd(pool, s.a, 0, wild, seed, &scalar_type(st_from(s.p[0])), InKind::Plain, &|t: &Type| matches!(t, Type::Scalar(_))))
                } else {
                    some!(self.opnd(pool, s.a, 0, wild, seed ^ 1, &gen_array_type(&s.p), InKind::Plain, &|t: &Type| is_arr(t) && leaf_shape(t)[0] <= 8 && !is_huge(t)))
                };
                let n = if is_arr(&pool.types[ia]) { leaf_shape(&pool.types[ia])[0].min(64) } else { 2 };
                let ust = [UINT64, ScalarType::U32, ScalarType::U16, ScalarType::U8][(s.p[1] % 4) as usize];
                let pt = match vv {
                    Some(0) => array_type(vec![n + 1], ust),
                    Some(1) => array_type(vec![n], ScalarType::I64),
                    Some(2) => array_type(vec![n], ScalarType::U128),
                    Some(3) => array_type(vec![n, 1], ust),
                    Some(5) => array_type(vec![n], BIT),
                    _ => array_type(vec![n], ust),
                };
                let ip = some!(self.fresh(pool, &pt, InKind::Perm { exact: s.p[3] % 4 != 0 }, seed));
                let (a, p) = (pool.nodes[ia].clone(), pool.nodes[ip].clone());
                if s.p[2] & 1 == 1 {
                    self.call(pool, name, vv, || g.apply_inverse_permutation(a, p))
                } else {
                    self.call(pool, name, vv, || g.apply_permutation(a, p))
                }
            }
            O::Sort => {
                let vv = v.map(|x| x % 5);
                let n = 1 + (s.p[1] % 5) as u64;
                let kt = match vv {
                    Some(1) => array_type(vec![n], BIT),
                    Some(2) => array_type(vec![n, 2], ScalarType::U8),
                    _ => array_type(vec![n, 1 + (s.p[2] % 6) as u64], BIT),
                };
                let k2 = kt.clone();
                let ik = some!(self.opnd(pool, s.a, if vv.is_some() { 2 } else { s.p[0] }, wild, seed, &kt, InKind::Plain, &move |t: &Type| {
                    *t == k2 || (is_arr(t) && leaf_st(t) == BIT && leaf_shape(t).len() == 2 && leaf_shape(t)[1] <= 12 && leaf_shape(t)[0] <= 8)
                }));
                let n = if is_arr(&pool.types[ik]) { leaf_shape(&pool.types[ik])[0] } else { n };
                let mut cols = vec![("key".to_string(), pool.nodes[ik].clone())];
                if let Some(i) = pool.pick_where(s.b, |t| is_arr(t) && leaf_shape(t)[0] == n && !is_huge(t)) {
                    if i != ik || s.p[3] & 1 == 1 {
                        cols.push(("c1".to_string(), pool.nodes[i].clone()));
                    }
                }
                match vv {
                    Some(3) => {
                        let i = some!(self.fresh(pool, &array_type(vec![n + 1], ScalarType::U8), InKind::Plain, seed ^ 3));
                        cols.push(("c2".to_string(), pool.nodes[i].clone()));
                    }
                    Some(4) => {
                        let i = some!(self.fresh(pool, &scalar_type(ScalarType::U8), InKind::Plain, seed ^ 4));
                        cols.push(("c2".to_string(), pool.nodes[i].clone()));
                    }
                    _ => {
                        if s.p[3] & 2 == 2 {
                            let i = some!(self.fresh(pool, &array_type(vec![n, 2], st_from(s.p[0])), InKind::Plain, seed ^ 5));
                            cols.push(("c2".to_string(), pool.nodes[i].clone()));
                        }
                    }
                }
                if s.p[3] & 4 == 4 {
                    cols.rotate_left(1);
                }
                let nt = match self.call(pool, "MkNamed", None, || g.create_named_tuple(cols)) {
                    Res::Added(i) => i,
                    _ => return Res::Skipped,
                };
                let a = pool.nodes[nt].clone();
                let key = if vv == Some(0) { "nokey".to_string() } else { "key".to_string() };
                self.call(pool, name, vv, || g.sort(a, key))
            }
            O::Join | O::JoinMasks => {
                let masks = s.o == O::JoinMasks;
                let vv = v.map(|x| x % 8);
                let alphabet = ["a", "k", "b", "c"];
                let kst = st_from(s.p[0]);
                let krest: Vec<u64> = if s.p[1] % 3 == 0 { vec![2] } else { vec![] };
                let mut tables = vec![];
                let mut key_names = vec![];
                for side in 0..2usize {
                    let q = s.p[2 + side];
                    let n = 1 + (q % 3) as u64;
                    let kname = alphabet[(q >> 2) as usize % 3];
                    key_names.push(kname.to_string());
                    let mut cols: Vec<(String, Type, bool)> = vec![];
                    if !(vv == Some(0) && side == 0) {
                        let nt = if vv == Some(1) && side == 1 { array_type(vec![n], ScalarType::U8) } else { array_type(vec![n], BIT) };
                        cols.push((NULL_HEADER.to_string(), nt, false));
                    }
                    let mut ksh = vec![n];
                    ksh.extend(krest.clone());
                    let kst2 = if vv == Some(2) && side == 1 { perturb_st(kst) } else { kst };
                    cols.push((kname.to_string(), array_type(ksh, kst2), true));
                    let extra = (q >> 5) % 3;
                    for j in 0..extra {
                        let nm = alphabet[((q >> (7 + 2 * j)) as usize) % 4];
                        if cols.iter().any(|c| c.0 == nm) {
                            continue;
                        }
                        let rows = if vv == Some(5) && side == 0 { n + 1 } else { n };
                        let mut sh = vec![rows];
                        if (q >> (11 + j)) & 1 == 1 {
                            sh.push(2);
                        }
                        cols.push((nm.to_string(), array_type(sh, st_from(q.rotate_left(5 + j as u32))), true));
                    }
                    if (q >> 13) & 1 == 1 {
                        cols.rotate_left(1);
                    }
                    let mut nodes = vec![];
                    for (ci, (nm, dt, maskable)) in cols.iter().enumerate() {
                        let ct = if masks && *maskable {
                            let rows = leaf_shape(dt)[0];
                            let mt = if vv == Some(6) && ci <= 1 { scalar_type(BIT) } else { array_type(vec![rows], BIT) };
                            tuple_type(vec![mt, dt.clone()])
                        } else {
                            dt.clone()
                        };
                        let kind = if nm == NULL_HEADER {
                            InKind::Small { bound: 1 }
                        } else if dt.get_scalar_type() != BIT {
                            InKind::Small { bound: 2 }
                        } else {
                            InKind::Plain
                        };
                        let i = some!(self.fresh(pool, &ct, kind, seed ^ (side * 16 + ci) as u64));
                        nodes.push((nm.clone(), pool.nodes[i].clone()));
                    }
                    let it = match self.call(pool, "MkNamed", None, || g.create_named_tuple(nodes)) {
                        Res::Added(i) => i,
                        _ => return Res::Skipped,
                    };
                    tables.push(it);
                }
                let mut headers: HashMap<String, String> = HashMap::new();
                headers.insert(key_names[0].clone(), key_names[1].clone());
                match vv {
                    Some(3) => {
                        headers.clear();
                        headers.insert("zz".to_string(), key_names[1].clone());
                    }
                    Some(4) => headers.clear(),
                    Some(7) => {
                        headers.insert(NULL_HEADER.to_string(), NULL_HEADER.to_string());
                    }
                    _ => {}
                }
                let jt = [JoinType::Inner, JoinType::Left, JoinType::Union, JoinType::Full][(s.p[1] >> 3) as usize % 4];
                let (a, b) = (pool.nodes[tables[0]].clone(), pool.nodes[tables[1]].clone());
                let nm = format!("{}:{:?}", name, jt);
                if masks {
                    self.call(pool, &nm, vv, || g.join_with_column_masks(a, b, jt, headers))
                } else {
                    self.call(pool, &nm, vv, || g.join(a, b, jt, headers))
                }
            }
            O::Prf | O::PermPrf => {
                let vv = v.map(|x| x % 7);
                let kt = match vv {
                    Some(0) => array_type(vec![127], BIT),
                    Some(1) => array_type(vec![16], ScalarType::U8),
                    Some(2) => array_type(vec![1, 128], BIT),
                    _ => array_type(vec![128], BIT),
                };
                let ik = if vv.map(|x| x <= 2).unwrap_or(false) || s.p[1] % 4 == 0 {
                    if s.p[1] % 8 < 4 {
                        let k2 = kt.clone();
                        match self.call(pool, "Random", None, || g.random(k2)) {
                            Res::Added(i) => i,
                            _ => return Res::Skipped,
                        }
                    } else {
                        some!(self.fresh(pool, &kt, InKind::Plain, seed))
                    }
                } else {
                    let k2 = kt.clone();
                    some!(self.opnd(pool, s.a, 0, wild, seed, &kt, InKind::Plain, &move |t: &Type| *t == k2))
                };
                let iv = if s.p[0] % 16 == 15 { u64::MAX } else { (s.p[0] % 4) as u64 };
                let k = pool.nodes[ik].clone();
                if s.o == O::Prf {
                    let ot = match vv {
                        Some(3) => invalid_type(s.b, &s.p),
                        Some(4) => huge_type(s.b, &s.p),
                        Some(5) => vector_type(0, scalar_type(BIT)),
                        _ => gen_type(&[s.p[2], s.p[3], s.b, s.c]),
                    };
                    self.call(pool, name, vv, || k.prf(iv, ot))
                } else {
                    let n = match vv {
                        Some(3) => 0,
                        Some(4) => (1 << 30) + 1,
                        Some(5) => 1 << 30,
                        Some(6) => u64::MAX,
                        _ => 1 + (s.p[2] % 6) as u64,
                    };
                    self.call(pool, name, vv, || k.permutation_from_prf(iv, n))
                }
            }
            O::Call | O::Iterate => {
                let iter = s.o == O::Iterate;
                let vv = v.map(|x| x % 5);
                let avail: Vec<usize> = (0..self.subs.len()).filter(|i| self.subs[*i].iter == iter || vv == Some(4)).collect();
                if avail.is_empty() {
                    return Res::Skipped;
                }
                let si = avail[pick(s.p[0], avail.len())];
                let sg = self.subs[si].g.clone();
                let ins = self.subs[si].ins.clone();
                if !iter || vv == Some(4) && !self.subs[si].iter {
                    let sels = [s.a, s.b, s.c];
                    let mut args = vec![];
                    for (j, t) in ins.iter().enumerate() {
                        let want = if vv == Some(2) && j == 0 { perturb_type(t, s.p[2] as usize) } else { t.clone() };
                        let w2 = want.clone();
                        let i = some!(self.opnd(pool, sels[j % 3], s.p[1] >> (2 * j), false, seed ^ j as u64, &want, InKind::Plain, &move |x: &Type| *x == w2));
                        args.push(pool.nodes[i].clone());
                    }
                    match vv {
                        Some(0) => {
                            args.pop();
                        }
                        Some(1) => {
                            let i = some!(pool.pick_where(s.c, |_| true));
                            args.push(pool.nodes[i].clone());
                        }
                        _ => {}
                    }
                    if iter {
                        while args.len() < 2 {
                            let i = some!(pool.pick_where(s.c, |_| true));
                            args.push(pool.nodes[i].clone());
                        }
                        let (a, b) = (args[0].clone(), args[1].clone());
                        return self.call(pool, name, vv, || g.iterate(sg, a, b));
                    }
                    self.call(pool, name, vv, || g.call(sg, args))
                } else {
                    let st_t = if vv == Some(0) { perturb_type(&ins[0], s.p[2] as usize) } else { ins[0].clone() };
                    let s2 = st_t.clone();
                    let is_ = some!(self.opnd(pool, s.a, s.p[1], false, seed, &st_t, InKind::Plain, &move |x: &Type| *x == s2));
                    let len = (s.p[2] % 5) as u64;
                    let et = if vv == Some(1) { perturb_type(&ins.get(1).cloned().unwrap_or(scalar_type(BIT)), s.p[3] as usize) } else { ins.get(1).cloned().unwrap_or(scalar_type(BIT)) };
                    let vt = if vv == Some(2) { et.clone() } else { vector_type(if vv == Some(3) { 0 } else { len }, et) };
                    let v2 = vt.clone();
                    let iv = some!(self.opnd(pool, s.b, s.p[1] >> 3, false, seed ^ 9, &vt, InKind::Plain, &move |x: &Type| *x == v2));
                    let (a, b) = (pool.nodes[is_].clone(), pool.nodes[iv].clone());
                    self.call(pool, name, vv, || g.iterate(sg, a, b))
                }
            }
            O::Custom => {
                // custom operations are C08's subject: only fitting operands here (no wild picks)
                let wild = false;
                let w = [1u64, 2, 3, 8][(s.p[1] % 4) as usize];
                let mut sh = shape_from(s.p[2], s.p[3]);
                sh.truncate(2);
                sh.push(w);
                let want = array_type(sh, BIT);
                let ia = some!(self.opnd(pool, s.a, 0, wild, seed ^ 1, &want, InKind::Plain, &|t: &Type| {
                    is_arr(t) && leaf_st(t) == BIT && !is_huge(t) && elems_of(t) <= 256 && *leaf_shape(t).last().unwrap() <= 64
                }));
                let ta = pool.types[ia].clone();
                let sa = if is_arr(&ta) { leaf_shape(&ta) } else { vec![1] };
                let pick_b = |pool: &Pool, sel: u16| {
                    let r = if wild {
                        pool.pick_where(sel, |t| !is_huge(t))
                    } else {
                        pool.pick_where(sel, |t| is_arr(t) && leaf_st(t) == BIT && !is_huge(t) && leaf_shape(t).last() == sa.last() && broadcastable(&leaf_shape(t), &sa))
                    };
                    r.unwrap_or(ia)
                };
                let ib = pick_b(pool, s.b);
                let ic = pick_b(pool, s.c);
                let sg = s.p[0] & 16 != 0;
                let (a, b, c) = (pool.nodes[ia].clone(), pool.nodes[ib].clone(), pool.nodes[ic].clone());
                let (op, args, nm) = match s.p[0] % 8 {
                    0 => (CustomOperation::new(Not {}), vec![a], "Not"),
                    1 => (CustomOperation::new(Or {}), vec![a, b], "Or"),
                    2 => (CustomOperation::new(Equal {}), vec![a, b], "Equal"),
                    3 => (CustomOperation::new(LessThan { signed_comparison: sg }), vec![a, b], "LessThan"),
                    4 => (CustomOperation::new(Mux {}), vec![c, a, b], "Mux"),
                    5 => (CustomOperation::new(if sg { Min { signed_comparison: false } } else { Min { signed_comparison: true } }), vec![a, b], "Min"),
                    6 => (CustomOperation::new(Max { signed_comparison: sg }), vec![a, b], "Max"),
                    _ => {
                        if s.p[0] & 32 != 0 {
                            (CustomOperation::new(BinaryAdd { overflow_bit: sg }), vec![a, b], "BinaryAdd")
                        } else {
                            let w = *sa.last().unwrap_or(&2);
                            (CustomOperation::new(Clip2K { k: s.p[1] as u64 % w.max(2) }), vec![a], "Clip2K")
                        }
                    }
                };
                let args = if v.map(|x| x % 3) == Some(0) { args[..args.len() - 1].to_vec() } else { args };
                let r = self.call(pool, &format!("Custom:{}", nm), v.map(|x| x % 3), || g.custom_op(op, args));
                if let Res::Added(_) = r {
                    self.has_custom = true;
                }
                r
            }
            O::RawArity => {
                let k = (s.p[0] % 4) as usize;
                let sels = [s.a, s.b, s.c];
                let mut deps = vec![];
                for sel in sels.iter().take(k) {
                    let i = some!(pool.pick_where(*sel, |t| !is_huge(t)));
                    deps.push(pool.nodes[i].clone());
                }
                let ops = [
                    Operation::Add,
                    Operation::Dot,
                    Operation::Matmul,
                    Operation::Gemm(false, true),
                    Operation::MixedMultiply,
                    Operation::Sum(vec![0]),
                    Operation::CumSum(0),
                    Operation::Get(vec![0]),
                    Operation::NOP,
                    Operation::A2B,
                    Operation::B2A(ScalarType::U8),
                    Operation::TupleGet(0),
                    Operation::VectorGet,
                    Operation::Zip,
                    Operation::Stack(vec![k as u64 + 1]),
                    Operation::Concatenate(0),
                    Operation::CreateNamedTuple(vec!["x".to_string()]),
                    Operation::Repeat(2),
                    Operation::ArrayToVector,
                    Operation::VectorToArray,
                    Operation::Gather(0),
                    Operation::CuckooHash,
                    Operation::InversePermutation,
                    Operation::CuckooToPermutation,
                    Operation::DecomposeSwitchingMap(2),
                    Operation::SegmentCumSum,
                    Operation::ApplyPermutation(false),
                    Operation::Sort("key".to_string()),
                    Operation::Truncate(2),
                    Operation::Zeros(scalar_type(BIT)),
                    Operation::Random(scalar_type(BIT)),
                    Operation::RandomPermutation(3),
                    Operation::Input(scalar_type(BIT)),
                    Operation::PRF(0, scalar_type(BIT)),
                    Operation::PermutationFromPRF(0, 3),
                    Operation::Print("m".to_string()),
                    Operation::Assert("m".to_string()),
                    Operation::Call,
                    Operation::Iterate,
                    Operation::CreateTuple,
                    Operation::CreateVector(scalar_type(BIT)),
                ];
                let op = ops[pick(s.p[1], ops.len())].clone();
                let gdeps: Vec<Graph> = if s.p[2] % 4 == 0 && !self.subs.is_empty() { vec![self.subs[pick(s.p[3], self.subs.len())].g.clone()] } else { vec![] };
                if matches!(op, Operation::Input(_)) && k == 0 && gdeps.is_empty() {
                    return Res::Skipped; // would be a real input without a value
                }
                self.call(pool, name, None, || g.add_node(deps, gdeps, op))
            }
        }
    }

    fn run_steps(&mut self, pool: &mut Pool, steps: &[Step9]) {
        for s in steps {
            if self.panic.is_some() {
                return;
            }
            let _ = self.step(pool, s);
        }
    }
}

fn perturb_st(st: ScalarType) -> ScalarType {
    ALL_ST[(ALL_ST.iter().position(|x| *x == st).unwrap() + 1) % ALL_ST.len()]
}

pub enum BuildOut {
    Ok(Built9),
    /// a builder call panicked: (operation, message @ location), labels so far
    Panic(String, String, BTreeSet<String>),
    /// no finalizable graph (documented rejections only)
    Nothing(&'static str, BTreeSet<String>),
}

pub fn build9(r: &R9) -> BuildOut {
    let ctx = match create_context() {
        Ok(c) => c,
        Err(_) => return BuildOut::Nothing("no-context", BTreeSet::new()),
    };
    let mut it = Interp {
        ctx: ctx.clone(),
        subs: vec![],
        inputs: vec![],
        labels: BTreeSet::new(),
        n_applied: 0,
        n_rejected: 0,
        panic: None,
        has_custom: false,
        misfit: None,
        allow_inputs: false,
    };
    macro_rules! bail {
        ($it:expr, $why:expr) => {{
            if let Some((op, msg)) = $it.panic.take() {
                return BuildOut::Panic(op, msg, $it.labels);
            }
            return BuildOut::Nothing($why, $it.labels);
        }};
    }
    for sub in &r.subs {
        let g = match ctx.create_graph() {
            Ok(g) => g,
            Err(_) => bail!(it, "no-graph"),
        };
        let mut pool = Pool::new(g.clone());
        let mut in_types: Vec<Type> = vec![];
        let n_in = if sub.iter { 2 } else { sub.ins.len().clamp(1, 3) };
        for j in 0..n_in {
            let p = sub.ins.get(j).copied().unwrap_or([0, 1, 1, 0]);
            let mut t = gen_type(&p);
            if sub.iter && j == 1 && p[3] % 4 != 0 && p[3] % 16 <= 8 {
                t = in_types[0].clone();
            }
            let tt = t.clone();
            match crate::util::catch(|| g.input(tt)) {
                Ok(Ok(n)) => {
                    pool.push(n, t.clone());
                }
                _ => bail!(it, "sub-input"),
            }
            in_types.push(t);
        }
        it.allow_inputs = false;
        it.run_steps(&mut pool, &sub.steps);
        if it.panic.is_some() {
            bail!(it, "");
        }
        let out = if sub.iter {
            let st = in_types[0].clone();
            let is_ = match pool.pick_where(sub.out, |t| *t == st) {
                Some(i) => i,
                None => continue,
            };
            let io = pool.pick_where(sub.out >> 3, |t| !is_huge(t)).unwrap_or(is_);
            let parts = vec![pool.nodes[is_].clone(), pool.nodes[io].clone()];
            match crate::util::catch(|| g.create_tuple(parts)) {
                Ok(Ok(n)) => n,
                _ => continue,
            }
        } else {
            match pool.pick_where(sub.out, |_| true) {
                Some(i) => pool.nodes[i].clone(),
                None => continue,
            }
        };
        let ok = crate::util::catch(|| g.set_output_node(out.clone()).is_ok() && g.finalize().is_ok());
        match ok {
            Ok(true) => it.subs.push(SubInfo { g, ins: in_types, iter: sub.iter }),
            Ok(false) => {}
            Err(p) => return BuildOut::Panic("finalize".to_string(), p, it.labels),
        }
    }
    let g = match ctx.create_graph() {
        Ok(g) => g,
        Err(_) => bail!(it, "no-graph"),
    };
    let mut pool = Pool::new(g.clone());
    it.allow_inputs = true;
    it.run_steps(&mut pool, &r.steps);
    if it.panic.is_some() {
        bail!(it, "");
    }
    if pool.nodes.is_empty() {
        bail!(it, "empty-graph");
    }
    let io = pool.pick_where(r.out, |_| true).unwrap();
    let out = pool.nodes[io].clone();
    let fin = crate::util::catch(|| -> CRes<()> {
        g.set_output_node(out)?;
        g.finalize()?;
        ctx.set_main_graph(g.clone())?;
        ctx.finalize()?;
        Ok(())
    });
    match fin {
        Ok(Ok(())) => {}
        Ok(Err(_)) => bail!(it, "finalize-rejected"),
        Err(p) => return BuildOut::Panic("finalize".to_string(), p, it.labels),
    }
    BuildOut::Ok(Built9 {
        ctx,
        main: g,
        inputs: it.inputs,
        labels: it.labels,
        n_applied: it.n_applied,
        n_rejected: it.n_rejected,
        has_custom: it.has_custom,
        misfit: it.misfit,
    })
}

/// input values of a built recipe (harness values) from the recipe's value pool
pub fn input_values9(r: &R9, inputs: &[(Type, InKind)]) -> Vec<HVal> {
    let len = r.vals.len().max(1);
    inputs
        .iter()
        .enumerate()
        .map(|(i, (t, kind))| {
            let mut j = 0usize;
            make_hval(t, kind, &mut || {
                let x = if r.vals.is_empty() { (0u8, 0u128) } else { r.vals[(i * 31 + j * 7 + 3) % len] };
                j += 1;
                x
            })
        })
        .collect()
}
