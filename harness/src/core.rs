//! Engine: campaigns driven by proptest `TestRunner`s (one per worker thread, fixed seeds derived
//! from VERIF_SEED), exhaustive enumerations, evidence accounting, replay files, known findings.
use proptest::strategy::{Strategy, ValueTree};
use proptest::test_runner::{Config, RngAlgorithm, TestCaseError, TestError, TestRng, TestRunner};
use serde::{de::DeserializeOwned, Serialize};
use serde_json::{json, Value as J};
use std::collections::{BTreeMap, HashSet};
use std::fmt::Debug;
use std::hash::{Hash, Hasher};
use std::sync::atomic::{AtomicBool, AtomicU64, Ordering};
use std::sync::Mutex;
use std::time::Instant;

#[derive(Clone, Copy, PartialEq, Eq, Debug)]
pub enum Tier {
    Quick,
    Thorough,
}

#[derive(Clone, Copy, PartialEq, Eq, Debug)]
pub enum Verdict {
    Pass,
    Skip,
    Fail,
}

#[derive(Clone, Debug)]
pub struct Outcome {
    pub verdict: Verdict,
    pub nontrivial: bool,
    pub labels: Vec<String>,
    /// for Fail: a short stable signature of the root cause (matched against known findings)
    pub sig: String,
    pub msg: String,
}

impl Outcome {
    pub fn pass(nontrivial: bool) -> Self {
        Outcome {
            verdict: Verdict::Pass,
            nontrivial,
            labels: vec![],
            sig: String::new(),
            msg: String::new(),
        }
    }
    pub fn skip(reason: &str) -> Self {
        Outcome {
            verdict: Verdict::Skip,
            nontrivial: false,
            labels: vec![format!("skip:{}", reason)],
            sig: String::new(),
            msg: reason.to_string(),
        }
    }
    pub fn fail(sig: &str, msg: String) -> Self {
        Outcome {
            verdict: Verdict::Fail,
            nontrivial: false,
            labels: vec![],
            sig: sig.to_string(),
            msg,
        }
    }
    pub fn label<S: Into<String>>(mut self, l: S) -> Self {
        self.labels.push(l.into());
        self
    }
    pub fn labels<I: IntoIterator<Item = String>>(mut self, l: I) -> Self {
        self.labels.extend(l);
        self
    }
    pub fn is_fail(&self) -> bool {
        self.verdict == Verdict::Fail
    }
}

#[derive(Default)]
pub struct SubStats {
    pub evaluations: u64,
    pub passed: u64,
    pub skipped: u64,
    pub nontrivial: u64,
    pub distinct_nontrivial: HashSet<u64>,
    pub labels: BTreeMap<String, u64>,
    pub samples: Vec<J>,
    pub excluded_known: BTreeMap<String, u64>,
    pub exhaustive: bool,
    pub rule: String,
    pub wall_s: f64,
}

#[derive(Clone, Debug)]
pub struct Known {
    pub id: String,
    pub status: String,
    pub signature: String,
    pub what: String,
}

pub struct Env {
    pub prop: String,
    pub tier: Tier,
    pub seed: u64,
    pub threads: usize,
    pub root: String,
    pub start: Instant,
    pub stats: Mutex<BTreeMap<String, SubStats>>,
    pub violations: Mutex<Vec<(String, String)>>, // (replay path, message)
    pub known: Vec<Known>,
    pub known_seen: Mutex<BTreeMap<String, u64>>,
    pub notes: Mutex<BTreeMap<String, J>>,
    pub assumptions: Mutex<Vec<String>>,
    pub scale: f64,
    /// proptest shrink budget for the next campaigns (expensive oracles lower it)
    pub shrink_iters: AtomicU64,
}

fn hash_str(s: &str) -> u64 {
    let mut h = std::collections::hash_map::DefaultHasher::new();
    s.hash(&mut h);
    h.finish()
}

pub fn mix_seed(seed: u64, name: &str, worker: u64) -> [u8; 32] {
    let mut out = [0u8; 32];
    let mut x = seed ^ hash_str(name).rotate_left(17) ^ worker.wrapping_mul(0x9E37_79B9_7F4A_7C15);
    for chunk in out.chunks_mut(8) {
        // splitmix64
        x = x.wrapping_add(0x9E37_79B9_7F4A_7C15);
        let mut z = x;
        z = (z ^ (z >> 30)).wrapping_mul(0xBF58_476D_1CE4_E5B9);
        z = (z ^ (z >> 27)).wrapping_mul(0x94D0_49BB_1331_11EB);
        z ^= z >> 31;
        chunk.copy_from_slice(&z.to_le_bytes());
    }
    out
}

fn truncate_json(v: &J, budget: usize) -> J {
    let s = v.to_string();
    if s.len() <= budget {
        v.clone()
    } else {
        let mut cut = budget;
        while !s.is_char_boundary(cut) {
            cut -= 1;
        }
        J::String(format!("{}…(+{} bytes)", &s[..cut], s.len() - cut))
    }
}

impl Env {
    pub fn new(prop: &str) -> Env {
        let tier = match std::env::var("VERIF_TIER").unwrap_or_default().as_str() {
            "thorough" => Tier::Thorough,
            _ => Tier::Quick,
        };
        let seed = std::env::var("VERIF_SEED")
            .ok()
            .and_then(|s| s.trim().parse::<i128>().ok())
            .map(|v| v as u64)
            .unwrap_or(0);
        let threads = std::env::var("VH_THREADS")
            .ok()
            .and_then(|s| s.parse().ok())
            .unwrap_or_else(|| {
                std::thread::available_parallelism()
                    .map(|n| n.get())
                    .unwrap_or(8)
            });
        let root = std::env::var("VERIF_ROOT").unwrap_or_else(|_| "/verif".to_string());
        let scale = std::env::var("VH_SCALE")
            .ok()
            .and_then(|s| s.parse().ok())
            .unwrap_or(1.0);
        let mut known = vec![];
        if let Ok(text) = std::fs::read_to_string(format!("{}/known_findings.jsonl", root)) {
            for line in text.lines() {
                let line = line.trim();
                if line.is_empty() || line.starts_with('#') {
                    continue;
                }
                if let Ok(v) = serde_json::from_str::<J>(line) {
                    if v["property"].as_str() == Some(prop) {
                        known.push(Known {
                            id: v["id"].as_str().unwrap_or("").to_string(),
                            status: v["status"].as_str().unwrap_or("open").to_string(),
                            signature: v["signature"].as_str().unwrap_or("").to_string(),
                            what: v["what"].as_str().unwrap_or("").to_string(),
                        });
                    }
                }
            }
        }
        Env {
            prop: prop.to_string(),
            tier,
            seed,
            threads,
            root,
            start: Instant::now(),
            stats: Mutex::new(BTreeMap::new()),
            violations: Mutex::new(vec![]),
            known,
            known_seen: Mutex::new(BTreeMap::new()),
            notes: Mutex::new(BTreeMap::new()),
            assumptions: Mutex::new(vec![]),
            scale,
            shrink_iters: AtomicU64::new(4000),
        }
    }

    pub fn set_shrink_iters(&self, n: u64) {
        self.shrink_iters.store(n, Ordering::Relaxed);
    }

    /// number of cases for this tier
    pub fn n(&self, quick: u64, thorough: u64) -> u64 {
        let base = if self.tier == Tier::Quick { quick } else { thorough };
        ((base as f64 * self.scale).ceil() as u64).max(1)
    }
    pub fn pick<T>(&self, quick: T, thorough: T) -> T {
        if self.tier == Tier::Quick {
            quick
        } else {
            thorough
        }
    }
    pub fn note(&self, key: &str, v: J) {
        self.notes.lock().unwrap().insert(key.to_string(), v);
    }
    pub fn assume(&self, s: &str) {
        self.assumptions.lock().unwrap().push(s.to_string());
    }
    pub fn failed(&self) -> bool {
        !self.violations.lock().unwrap().is_empty()
    }

    fn is_open_known(&self, sig: &str) -> bool {
        !sig.is_empty()
            && self
                .known
                .iter()
                .any(|k| k.status == "open" && k.signature == sig)
    }

    fn write_replay<C: Serialize>(&self, check: &str, case: &C, out: &Outcome) -> String {
        let body = json!({
            "property": self.prop,
            "check": check,
            "signature": out.sig,
            "message": out.msg,
            "seed": self.seed,
            "case": case,
        });
        let text = serde_json::to_string_pretty(&body).unwrap();
        let dir = format!("{}/replays/{}", self.root, self.prop);
        let _ = std::fs::create_dir_all(&dir);
        let path = format!("{}/{}-{:016x}.json", dir, check, hash_str(&body["case"].to_string()));
        let _ = std::fs::write(&path, text);
        path
    }

    fn report_violation<C: Serialize>(&self, check: &str, case: &C, out: &Outcome) {
        let path = self.write_replay(check, case, out);
        println!("VIOLATION property={} replay={}", self.prop, path);
        println!(
            "  check={} signature={} message={}",
            check,
            out.sig,
            out.msg.chars().take(600).collect::<String>()
        );
        self.violations.lock().unwrap().push((path, out.msg.clone()));
    }

    fn account<C: Serialize>(&self, st: &mut SubStats, case: &C, out: &Outcome) {
        st.evaluations += 1;
        match out.verdict {
            Verdict::Pass => st.passed += 1,
            Verdict::Skip => st.skipped += 1,
            Verdict::Fail => {}
        }
        for l in &out.labels {
            *st.labels.entry(l.clone()).or_insert(0) += 1;
        }
        if out.nontrivial && out.verdict == Verdict::Pass {
            st.nontrivial += 1;
            let s = serde_json::to_string(case).unwrap_or_default();
            let fresh = st.distinct_nontrivial.insert(hash_str(&s));
            if fresh && st.samples.len() < 4 {
                if let Ok(v) = serde_json::to_value(case) {
                    st.samples.push(truncate_json(&v, 1500));
                }
            }
        }
    }

    fn merge(&self, name: &str, rule: &str, local: SubStats, wall: f64, exhaustive: bool) {
        let mut all = self.stats.lock().unwrap();
        let st = all.entry(name.to_string()).or_default();
        st.evaluations += local.evaluations;
        st.passed += local.passed;
        st.skipped += local.skipped;
        st.nontrivial += local.nontrivial;
        st.distinct_nontrivial.extend(local.distinct_nontrivial);
        for (k, v) in local.labels {
            *st.labels.entry(k).or_insert(0) += v;
        }
        for (k, v) in local.excluded_known {
            *st.excluded_known.entry(k).or_insert(0) += v;
        }
        for s in local.samples {
            if st.samples.len() < 4 {
                st.samples.push(s);
            }
        }
        st.rule = rule.to_string();
        st.exhaustive = exhaustive;
        if wall > st.wall_s {
            st.wall_s = wall;
        }
    }

    /// Random campaign: `cases` generated cases split over the worker threads. Each worker owns a
    /// proptest TestRunner with a fixed seed; on failure proptest shrinks the case, the minimal case
    /// is written as a replay file and reported.
    pub fn campaign<C, S, G, F>(&self, name: &str, rule: &str, cases: u64, strat: G, oracle: F)
    where
        C: Debug + Clone + Serialize + Send,
        S: Strategy<Value = C>,
        G: Fn() -> S + Sync,
        F: Fn(&C) -> Outcome + Sync,
    {
        if self.failed() {
            return;
        }
        let t0 = Instant::now();
        let workers = (self.threads as u64).min(cases).max(1);
        let stop = AtomicBool::new(false);
        let done = AtomicU64::new(0);
        std::thread::scope(|sc| {
            for w in 0..workers {
                let stop = &stop;
                let done = &done;
                let strat = &strat;
                let oracle = &oracle;
                let share = cases / workers + if w < cases % workers { 1 } else { 0 };
                std::thread::Builder::new()
                    .stack_size(256 << 20)
                    .spawn_scoped(sc, move || {
                        let mut local = SubStats::default();
                        let batch = share.min(256).max(1);
                        let cfg = Config {
                            cases: batch as u32,
                            failure_persistence: None,
                            max_shrink_iters: self.shrink_iters.load(Ordering::Relaxed) as u32,
                            max_local_rejects: 1 << 30,
                            max_global_rejects: 1 << 30,
                            ..Config::default()
                        };
                        let mk_runner = |batch_no: u64| {
                            let rng = TestRng::from_seed(
                                RngAlgorithm::ChaCha,
                                &mix_seed(self.seed, &format!("{}/{}#{}", self.prop, name, batch_no), w),
                            );
                            TestRunner::new_with_rng(cfg.clone(), rng)
                        };
                        let mut batch_no = 0u64;
                        let failed_once = std::cell::Cell::new(false);
                        let local_cell = std::cell::RefCell::new(&mut local);
                        let strategy = strat();
                        let mut remaining = share;
                        let mut res = Ok(());
                        while remaining > 0 && !stop.load(Ordering::Relaxed) {
                            // the last batch may overshoot by less than one batch; cases beyond
                            // the worker's share are not executed
                            let quota = std::cell::Cell::new(remaining.min(batch));
                            remaining -= remaining.min(batch);
                            let mut runner = mk_runner(batch_no);
                            batch_no += 1;
                            res = runner.run(&strategy, |case| {
                            if quota.get() == 0 && !failed_once.get() {
                                return Ok(());
                            }
                            if !failed_once.get() {
                                quota.set(quota.get() - 1);
                            }
                            if stop.load(Ordering::Relaxed) && !failed_once.get() {
                                // another worker failed: finish quickly
                                return Ok(());
                            }
                            let out = match crate::util::catch(|| oracle(&case)) {
                                Ok(o) => o,
                                Err(p) => Outcome::fail(
                                    "harness-panic",
                                    format!("panic escaped the oracle: {}", p),
                                ),
                            };
                            if out.is_fail() && self.is_open_known(&out.sig) {
                                if !failed_once.get() {
                                    let mut l = local_cell.borrow_mut();
                                    l.evaluations += 1;
                                    *l.excluded_known.entry(out.sig.clone()).or_insert(0) += 1;
                                }
                                return Ok(());
                            }
                            if !failed_once.get() {
                                self.account(&mut local_cell.borrow_mut(), &case, &out);
                                done.fetch_add(1, Ordering::Relaxed);
                            }
                            if out.is_fail() {
                                if !failed_once.get() {
                                    // only the first failing worker shrinks and reports
                                    if stop.swap(true, Ordering::SeqCst) {
                                        return Ok(());
                                    }
                                    failed_once.set(true);
                                }
                                Err(TestCaseError::fail(format!("{}|{}", out.sig, out.msg)))
                            } else {
                                Ok(())
                            }
                        });
                            if res.is_err() {
                                break;
                            }
                        }
                        if let Err(e) = res {
                            match e {
                                TestError::Fail(_, minimal) => {
                                    {
                                        let out = match crate::util::catch(|| oracle(&minimal)) {
                                            Ok(o) => o,
                                            Err(p) => Outcome::fail(
                                                "harness-panic",
                                                format!("panic escaped the oracle: {}", p),
                                            ),
                                        };
                                        let out = if out.is_fail() {
                                            out
                                        } else {
                                            Outcome::fail(
                                                "flaky",
                                                "minimal case did not fail again on re-run"
                                                    .to_string(),
                                            )
                                        };
                                        self.report_violation(name, &minimal, &out);
                                    }
                                }
                                TestError::Abort(r) => {
                                    println!("INCONCLUSIVE: proptest aborted in {}: {}", name, r);
                                    std::process::exit(2);
                                }
                            }
                        }
                        drop(local_cell);
                        self.merge(name, rule, local, t0.elapsed().as_secs_f64(), false);
                    })
                    .unwrap();
            }
        });
    }

    /// Exhaustive enumeration of `items` (a finite space, enumerated completely), in parallel.
    pub fn enumerate<C, F>(&self, name: &str, rule: &str, items: Vec<C>, oracle: F)
    where
        C: Debug + Clone + Serialize + Send + Sync,
        F: Fn(&C) -> Outcome + Sync,
    {
        self.enumerate_opt(name, rule, items, true, oracle)
    }

    pub fn enumerate_opt<C, F>(&self, name: &str, rule: &str, items: Vec<C>, exhaustive: bool, oracle: F)
    where
        C: Debug + Clone + Serialize + Send + Sync,
        F: Fn(&C) -> Outcome + Sync,
    {
        if self.failed() {
            return;
        }
        let t0 = Instant::now();
        let next = AtomicU64::new(0);
        let stop = AtomicBool::new(false);
        let workers = self.threads.min(items.len()).max(1);
        std::thread::scope(|sc| {
            for _ in 0..workers {
                let next = &next;
                let stop = &stop;
                let items = &items;
                let oracle = &oracle;
                std::thread::Builder::new()
                    .stack_size(256 << 20)
                    .spawn_scoped(sc, move || {
                        let mut local = SubStats::default();
                        loop {
                            if stop.load(Ordering::Relaxed) {
                                break;
                            }
                            let i = next.fetch_add(1, Ordering::Relaxed) as usize;
                            if i >= items.len() {
                                break;
                            }
                            let case = &items[i];
                            let out = match crate::util::catch(|| oracle(case)) {
                                Ok(o) => o,
                                Err(p) => Outcome::fail(
                                    "harness-panic",
                                    format!("panic escaped the oracle: {}", p),
                                ),
                            };
                            if out.is_fail() && self.is_open_known(&out.sig) {
                                local.evaluations += 1;
                                *local.excluded_known.entry(out.sig.clone()).or_insert(0) += 1;
                                continue;
                            }
                            self.account(&mut local, case, &out);
                            if out.is_fail() {
                                if !stop.swap(true, Ordering::SeqCst) {
                                    self.report_violation(name, case, &out);
                                }
                                break;
                            }
                        }
                        self.merge(name, rule, local, t0.elapsed().as_secs_f64(), exhaustive);
                    })
                    .unwrap();
            }
        });
    }

    /// A pinned case (regression / known finding). If it fails with the signature of an OPEN known
    /// finding, print KNOWN-FINDING and continue; any other failure is a violation.
    pub fn pinned<C, F>(&self, name: &str, case: &C, oracle: F)
    where
        C: Debug + Clone + Serialize,
        F: Fn(&C) -> Outcome,
    {
        if self.failed() {
            return;
        }
        let out = match crate::util::catch(|| oracle(case)) {
            Ok(o) => o,
            Err(p) => Outcome::fail("harness-panic", format!("panic escaped the oracle: {}", p)),
        };
        let mut local = SubStats::default();
        if out.is_fail() && self.is_open_known(&out.sig) {
            *self
                .known_seen
                .lock()
                .unwrap()
                .entry(out.sig.clone())
                .or_insert(0) += 1;
            local.evaluations += 1;
            *local.excluded_known.entry(out.sig.clone()).or_insert(0) += 1;
        } else {
            self.account(&mut local, case, &out);
            if out.is_fail() {
                self.report_violation(name, case, &out);
            }
        }
        self.merge(&format!("pinned:{}", name), "pinned regression case", local, 0.0, false);
    }

    /// Writes the evidence file and returns the process exit code.
    pub fn finish(&self, rule: &str) -> i32 {
        let stats = self.stats.lock().unwrap();
        let mut evaluations = 0u64;
        let mut distinct = 0u64;
        let mut samples: Vec<J> = vec![];
        let mut subs = serde_json::Map::new();
        let mut exhaustive_subspaces: Vec<J> = vec![];
        let mut excluded_total: BTreeMap<String, u64> = BTreeMap::new();
        for (name, st) in stats.iter() {
            evaluations += st.evaluations;
            distinct += st.distinct_nontrivial.len() as u64;
            for s in st.samples.iter().take(2) {
                samples.push(json!({"check": name, "case": s}));
            }
            if st.exhaustive {
                exhaustive_subspaces.push(json!({"check": name, "cases": st.evaluations, "rule": st.rule}));
            }
            for (k, v) in &st.excluded_known {
                *excluded_total.entry(k.clone()).or_insert(0) += v;
            }
            subs.insert(
                name.clone(),
                json!({
                    "evaluations": st.evaluations,
                    "passed": st.passed,
                    "skipped": st.skipped,
                    "nontrivial": st.nontrivial,
                    "distinct_nontrivial": st.distinct_nontrivial.len(),
                    "rule": st.rule,
                    "exhaustive": st.exhaustive,
                    "labels": st.labels,
                    "excluded_by_known_finding": st.excluded_known,
                    "wall_s": (st.wall_s * 100.0).round() / 100.0,
                }),
            );
        }
        let violations = self.violations.lock().unwrap();
        // known findings
        let seen = self.known_seen.lock().unwrap();
        for k in &self.known {
            if k.status == "open" {
                let n_pinned = seen.get(&k.signature).copied().unwrap_or(0);
                let n_gen = excluded_total.get(&k.signature).copied().unwrap_or(0);
                if n_pinned + n_gen > 0 {
                    println!(
                        "KNOWN-FINDING: property={} {} [{}; reproduced {}x]",
                        self.prop,
                        k.what,
                        k.id,
                        n_pinned.max(n_gen)
                    );
                } else {
                    println!(
                        "note: known finding {} ({}) was not reproduced in this run",
                        k.id, k.signature
                    );
                }
            }
        }
        let wall = self.start.elapsed().as_secs_f64();
        let mut coverage = serde_json::Map::new();
        coverage.insert("evaluations".into(), json!(evaluations));
        coverage.insert("distinct_nontrivial".into(), json!(distinct));
        coverage.insert("rule".into(), json!(rule));
        coverage.insert("samples".into(), J::Array(samples));
        coverage.insert("checks".into(), J::Object(subs));
        coverage.insert("exhaustive_subspaces".into(), J::Array(exhaustive_subspaces));
        coverage.insert("excluded_by_known_finding".into(), json!(excluded_total));
        coverage.insert("threads".into(), json!(self.threads));
        for (k, v) in self.notes.lock().unwrap().iter() {
            coverage.insert(k.clone(), v.clone());
        }
        // companion runs of the same check under another build (e.g. C11 with the `small` feature)
        if let Ok(list) = std::env::var("VH_EMBED") {
            let mut comp = vec![];
            for f in list.split(',').filter(|f| !f.is_empty()) {
                if let Ok(text) = std::fs::read_to_string(f) {
                    if let Ok(v) = serde_json::from_str::<J>(&text) {
                        comp.push(json!({
                            "file": f,
                            "tier": v["tier"],
                            "seed": v["seed"],
                            "violations": v["violations"],
                            "evaluations": v["coverage"]["evaluations"],
                            "distinct_nontrivial": v["coverage"]["distinct_nontrivial"],
                            "checks": v["coverage"]["checks"],
                            "wall_s": v["wall_s"],
                        }));
                    }
                }
            }
            coverage.insert("companion_runs".into(), J::Array(comp));
        }
        let ev = json!({
            "property_id": self.prop,
            "tier": if self.tier == Tier::Quick {"quick"} else {"thorough"},
            "seed": self.seed,
            "level": "exploration",
            "coverage": J::Object(coverage),
            "assumptions": *self.assumptions.lock().unwrap(),
            "wall_s": (wall * 100.0).round() / 100.0,
            "violations": violations.len(),
        });
        let dir = format!("{}/evidence", self.root);
        let _ = std::fs::create_dir_all(&dir);
        let name = std::env::var("VH_EVIDENCE_NAME").unwrap_or_else(|_| self.prop.clone());
        let path = format!("{}/{}.json", dir, name);
        std::fs::write(&path, serde_json::to_string_pretty(&ev).unwrap() + "\n").unwrap();
        println!(
            "{}: tier={:?} seed={} evaluations={} distinct_nontrivial={} violations={} wall={:.1}s",
            self.prop,
            self.tier,
            self.seed,
            evaluations,
            distinct,
            violations.len(),
            wall
        );
        if violations.is_empty() {
            0
        } else {
            1
        }
    }
}

/// Replay helper: load the case of a replay file.
pub fn load_replay(path: &str) -> (String, String, J) {
    let text = std::fs::read_to_string(path).expect("cannot read replay file");
    let v: J = serde_json::from_str(&text).expect("replay file is not JSON");
    (
        v["property"].as_str().unwrap_or("").to_string(),
        v["check"].as_str().unwrap_or("").to_string(),
        v["case"].clone(),
    )
}

pub fn replay_with<C: DeserializeOwned, F: Fn(&C) -> Outcome>(case: J, oracle: F) -> Outcome {
    let c: C = serde_json::from_value(case).expect("replay case does not match the check's case type");
    match crate::util::catch(|| oracle(&c)) {
        Ok(o) => o,
        Err(p) => Outcome::fail("harness-panic", format!("panic escaped the oracle: {}", p)),
    }
}

/// Draw one value from a strategy with a fixed seed (used by pinned cases and corpus writers).
pub fn sample_one<S: Strategy>(s: &S, seed: u64) -> S::Value {
    let rng = TestRng::from_seed(RngAlgorithm::ChaCha, &mix_seed(seed, "sample", 0));
    let mut runner = TestRunner::new_with_rng(Config::default(), rng);
    s.new_tree(&mut runner).unwrap().current()
}
