//! C12 — contexts survive serialization; malformed input is an error, not a crash.
//!
//! (A) round trip: contexts of every provenance (decorated recipe contexts and their images under
//!     instantiation, inlining, optimisation, MPC compilation) -> to_string -> from_str: Ok, deeply
//!     equal (library predicate AND an independent comparison through public getters), same node
//!     types, same evaluation, serialization deterministic.
//! (B) structured mutation of the DECODED envelope (DESIGN §2.8): from_str under catch_unwind must
//!     return Err, or Ok(c') with c' well-formed and re-serializable; a panic is a violation.
use crate::c12_util::*;
use crate::core::*;
use crate::graphgen::*;
use crate::mpcx::*;
use ciphercore_base::custom_ops::{run_instantiation_pass, CustomOperation};
use ciphercore_base::evaluators::simple_evaluator::SimpleEvaluator;
use ciphercore_base::graphs::Context;
use ciphercore_base::inline::inline_ops::inline_operations;
use ciphercore_base::optimizer::optimize::optimize_context;
use proptest::prelude::*;
use serde::{Deserialize, Serialize};
use serde_json::{json, Value as J};

pub const RULE: &str = "(A) graph recipes (arithmetic, structure, containers, conversions, sort/permutation, library custom ops, Call/Iterate, Random/PRF) copied through the public builder with decorations \
(node and graph names incl. unicode/escapes, all 7 node and 3 graph annotation kinds, 128-bit constants >= 2^64, parameterised custom operations, Join with two key columns, Print/Assert/Gather, unfinalized graphs/contexts) \
and their images under run_instantiation_pass, inline_operations (3 modes), optimize_context, compile_context; oracle: from_str(to_string(c)) is Ok(c'), c.deep_equal(c'), independent getter-level comparison \
(operations, dependencies, outputs, main graph, names both ways, annotations), node types equal, re-serialization JSON-equal, seeded evaluation equal, to_string twice identical; \
non-trivial(A) = context with >= 2 graphs or >= 1 of {annotation, name, custom op, 128-bit constant}. \
(B) 1-4 structured mutations of the decoded envelope (ids in dependency/output/main/name/annotation tables, node/graph swaps, finalized flips, operation copy/replacement incl. every library custom-op tag, numeric/string/type leaves of operation parameters; \
field deletion/duplication/retyping, unknown operation or custom tag, corrupted Constant Value envelope, version, truncation of inner/outer text, non-JSON data); oracle under catch_unwind: Err, or Ok(c') well-formed (dense ids, dependencies precede and share the graph, \
called graphs exist/finalized/older, every node typed, names resolve, output/main graph belong) and re-serializable with a stable round trip; a panic is a violation (signature = panic site); \
non-trivial(B) = mutated text differs from the original and still parses as outer JSON with a data string; distinct = distinct generated case";

// ---------------------------------------------------------------------------------------------
// cases

#[derive(Clone, Copy, Debug, Serialize, Deserialize, PartialEq, Eq, Hash)]
pub enum Prov {
    Plain,
    Instantiated,
    /// inline mode 0 simple, 1 depth-optimised default, 2 depth-optimised extreme
    Inlined(u8),
    Optimized,
    Compiled,
}

pub fn prov_name(p: Prov) -> String {
    match p {
        Prov::Plain => "plain".into(),
        Prov::Instantiated => "instantiated".into(),
        Prov::Inlined(m) => format!("inlined-{}", mode_name(m)),
        Prov::Optimized => "optimized".into(),
        Prov::Compiled => "compiled".into(),
    }
}

#[derive(Clone, Debug, Serialize, Deserialize)]
pub struct RtCase {
    pub recipe: Recipe,
    pub deco: Deco,
    pub prov: Prov,
    pub cfg: MpcCfg,
    pub seed: [u8; 16],
}

pub struct Made {
    pub ctx: Context,
    pub labels: Vec<String>,
    pub feats: Feats,
    /// input values of the main graph (None: context cannot be evaluated)
    pub inputs: Option<Vec<ciphercore_base::data_values::Value>>,
    /// evaluate through run_instantiation_pass (plain contexts may hold Custom nodes)
    pub instantiate_for_eval: bool,
}

/// Builds the context of a case. Err(skip outcome) when a pass rejects/panics (not C12's business).
pub fn make(c: &RtCase, max_elems: u64) -> Result<Made, Outcome> {
    let built = match crate::util::catch(|| build(&c.recipe, max_elems)) {
        Ok(Some(b)) => b,
        Ok(None) => return Err(Outcome::skip("unbuildable-recipe")),
        Err(_) => return Err(Outcome::skip("builder-panic")),
    };
    let mut deco = c.deco.clone();
    if c.prov != Prov::Plain {
        deco.unfin = 0; // the passes need a finalized context
    }
    if c.prov == Prov::Optimized && c.seed[0] % 4 != 0 {
        // the constant optimiser rejects annotated constants: keep that rejection to a quarter of the cases
        deco.node_annos.clear();
    }
    if c.prov == Prov::Compiled {
        // annotations are the compiler's own business; heavy extras are out of the quick budget
        deco.node_annos.clear();
        deco.extras.retain(|e| extra_is_light(e));
    }
    let copy = match crate::util::catch(|| decorated_copy(&built.context, &deco)) {
        Ok(Ok(c)) => c,
        Ok(Err(e)) => return Err(Outcome::skip("copy-rejected").label(format!("copy-rejected:{}", first_words(&e, 6)))),
        Err(p) => return Err(Outcome::skip("copy-panic").label(format!("copy-panic:{}", site_of(&p)))),
    };
    let mut labels = vec![format!("prov:{}", prov_name(c.prov)), format!("unfin:{}", deco.unfin % 6)];
    for e in &copy.extras_applied {
        labels.push(format!("extra:{}", e));
    }
    let mut kinds: Vec<&String> = built.applied.iter().collect();
    kinds.sort();
    kinds.dedup();
    for k in kinds {
        labels.push(format!("op:{}", k));
    }
    let plain = copy.ctx.clone();
    let finalized = plain.check_finalized().is_ok();
    let n_in = built.inputs.len();
    let pass = |name: &str, r: Result<ciphercore_base::errors::Result<ciphercore_base::custom_ops::MappedContext>, String>| -> Result<Context, Outcome> {
        match r {
            Ok(Ok(m)) => Ok(m.get_context()),
            Ok(Err(e)) => Err(Outcome::skip(&format!("{}-rejected", name)).label(format!("{}-rejected:{}", name, first_words(&e.to_string(), 6)))),
            Err(p) => Err(Outcome::skip(&format!("{}-panic", name)).label(format!("{}-panic:{}", name, site_of(&p)))),
        }
    };
    let seed = c.seed;
    let ctx = match c.prov {
        Prov::Plain => plain.clone(),
        Prov::Instantiated => pass("instantiate", crate::util::catch(|| run_instantiation_pass(plain.clone())))?,
        Prov::Inlined(m) => {
            let inst = pass("instantiate", crate::util::catch(|| run_instantiation_pass(plain.clone())))?;
            pass("inline", crate::util::catch(|| inline_operations(&inst, inline_cfg(m))))?
        }
        Prov::Optimized => {
            let inst = pass("instantiate", crate::util::catch(|| run_instantiation_pass(plain.clone())))?;
            let inl = pass("inline", crate::util::catch(|| inline_operations(&inst, inline_cfg(c.cfg.mode))))?;
            pass(
                "optimize",
                crate::util::catch(|| {
                    let ev = SimpleEvaluator::new(Some(seed))?;
                    optimize_context(&inl, ev)
                }),
            )?
        }
        Prov::Compiled => {
            let mut cfg = c.cfg.clone();
            cfg.owners = (0..n_in)
                .map(|i| if built.inputs[i].2 == InKind::Perm { 3 } else { owner_of(&c.cfg, i) })
                .collect();
            match compile(&plain, n_in, &cfg) {
                Compiled::Ok(m) => m.get_context(),
                Compiled::Rejected(e) => return Err(Outcome::skip("compiler-rejected").label(format!("compiler-rejected:{}", first_words(&e, 5)))),
                Compiled::Panicked(p) => return Err(Outcome::skip("compiler-panic").label(format!("compiler-panic:{}", site_of(&p)))),
            }
        }
    };
    // inputs for the evaluation
    let inputs = if finalized {
        let in_types: Vec<_> = built.inputs.iter().map(|(_, t, _)| t.clone()).collect();
        let in_vals = input_values(&c.recipe, &built.inputs, 0);
        let mut cfg = c.cfg.clone();
        cfg.owners = (0..n_in)
            .map(|i| if built.inputs[i].2 == InKind::Perm { 3 } else { owner_of(&c.cfg, i) })
            .collect();
        let vals = if c.prov == Prov::Compiled {
            global_inputs(&in_types, &in_vals, &cfg, u64::from_le_bytes(c.seed[..8].try_into().unwrap()))
        } else {
            in_vals.iter().zip(in_types.iter()).map(|(v, t)| crate::hv::encode(v, t)).collect()
        };
        Some(fit_inputs(&ctx, vals, u64::from_le_bytes(c.seed[8..].try_into().unwrap())))
    } else {
        None
    };
    let mut feats = features(&ctx);
    feats.n_extras = copy.extras_applied.len();
    labels.push(format!("graphs:{}", bucket_small(feats.graphs)));
    labels.push(format!("nodes:{}", crate::c01::bucket(feats.nodes)));
    if feats.node_names > 0 {
        labels.push("has:node-names".into());
    }
    if feats.graph_names > 0 {
        labels.push("has:graph-names".into());
    }
    if feats.node_annos > 0 {
        labels.push("has:node-annotations".into());
    }
    if feats.graph_annos > 0 {
        labels.push("has:graph-annotations".into());
    }
    if feats.custom > 0 {
        labels.push("has:custom-op".into());
    }
    if feats.const128 > 0 {
        labels.push("has:128-bit-constant".into());
    }
    if feats.calls > 0 {
        labels.push("has:call-iterate".into());
    }
    if feats.random > 0 {
        labels.push("has:random".into());
    }
    for a in &feats.anno_kinds {
        labels.push(format!("anno:{}", a));
    }
    Ok(Made { ctx, labels, feats, inputs, instantiate_for_eval: c.prov == Prov::Plain })
}

fn bucket_small(n: usize) -> &'static str {
    match n {
        0 => "0",
        1 => "1",
        2 => "2",
        3..=5 => "3-5",
        6..=20 => "6-20",
        _ => ">20",
    }
}

// ---------------------------------------------------------------------------------------------
// (A) round trip

pub fn oracle_rt(c: &RtCase) -> Outcome {
    let m = match make(c, 64) {
        Ok(m) => m,
        Err(o) => return o,
    };
    match round_trip(&m.ctx, m.inputs.as_ref(), m.instantiate_for_eval, c.seed) {
        Ok(mut ls) => {
            let nt = m.feats.graphs >= 2 || m.feats.node_names + m.feats.graph_names + m.feats.node_annos + m.feats.graph_annos + m.feats.custom + m.feats.const128 > 0;
            ls.extend(m.labels);
            Outcome::pass(nt).labels(ls)
        }
        Err((sig, msg)) => Outcome::fail(&sig, msg),
    }
}

fn arb_prov_pass() -> BoxedStrategy<Prov> {
    prop_oneof![
        3 => Just(Prov::Instantiated),
        2 => Just(Prov::Inlined(0)),
        2 => Just(Prov::Inlined(1)),
        2 => Just(Prov::Inlined(2)),
        4 => Just(Prov::Optimized),
    ]
    .boxed()
}

/// kinds for round-trip recipes: the MPC kinds plus what only the plain evaluator supports
pub fn rt_kinds(compilable: bool) -> Vec<(u32, K)> {
    let mut k = mpc_kinds();
    k.push((2, K::Dup));
    // Call/Iterate nodes (graph dependencies) are a serialization concern of their own: weight them up
    k.push((6, K::Call));
    k.push((4, K::Iterate));
    k.push((2, K::Nop));
    if !compilable {
        k.push((3, K::Random));
        k.push((1, K::RandomPerm));
        k.push((2, K::Prf));
        k.push((1, K::PermPrf));
        k.push((2, K::Trunc));
    }
    k
}

pub fn arb_rt_case(prov: BoxedStrategy<Prov>, max_steps: usize, max_subs: usize, deco_scale: usize, compilable: bool) -> BoxedStrategy<RtCase> {
    let min_steps = if compilable { 5.min(max_steps) } else { 1 };
    (
        arb_recipe(rt_kinds(compilable), min_steps, max_steps, max_subs),
        arb_deco(deco_scale),
        prov,
        crate::c01::arb_cfg(),
        any::<[u8; 16]>(),
    )
        .prop_map(|(recipe, deco, prov, cfg, seed)| RtCase { recipe, deco, prov, cfg, seed })
        .boxed()
}

// ---------------------------------------------------------------------------------------------
// custom-operation tags (every tag registered by the library) — JSON round trip of the operation

#[derive(Clone, Debug, Serialize, Deserialize)]
pub struct TagCase {
    pub json: String,
}

pub fn oracle_tag(c: &TagCase) -> Outcome {
    let r = crate::util::catch(|| serde_json::from_str::<CustomOperation>(&c.json));
    let op = match r {
        Ok(Ok(op)) => op,
        Ok(Err(e)) => {
            // observation (not judged): typetag buffers the fields of an internally tagged custom operation through
            // serde's Content, which cannot hold integers >= 2^64; only the MPC-internal TruncateMPC{scale: u128}
            // is affected and no public API yields a context holding it
            if e.to_string().contains("u128 is not supported") && c.json.contains("TruncateMPC") {
                return Outcome::skip("typetag-u128-unsupported-for-internal-TruncateMPC");
            }
            return Outcome::fail("custom-tag-deser", format!("{} -> {}", c.json, e));
        }
        Err(p) => return Outcome::fail(&format!("custom-tag-panic-{}", site_of(&p)), format!("{} -> panic {}", c.json, p)),
    };
    let s1 = match crate::util::catch(|| serde_json::to_string(&op)) {
        Ok(Ok(s)) => s,
        other => return Outcome::fail("custom-tag-ser", format!("{:?}", other.map(|r| r.map_err(|e| e.to_string())))),
    };
    let op2: CustomOperation = match crate::util::catch(|| serde_json::from_str::<CustomOperation>(&s1)) {
        Ok(Ok(o)) => o,
        other => return Outcome::fail("custom-tag-reparse", format!("{} -> {:?}", s1, other.map(|r| r.map(|_| ()).map_err(|e| e.to_string())))),
    };
    if op != op2 {
        return Outcome::fail("custom-tag-neq", format!("{} reparsed differs", s1));
    }
    let s2 = serde_json::to_string(&op2).unwrap_or_default();
    if s1 != s2 {
        return Outcome::fail("custom-tag-text", format!("{} vs {}", s1, s2));
    }
    let a: J = serde_json::from_str(&c.json).unwrap_or(J::Null);
    let b: J = serde_json::from_str(&s1).unwrap_or(J::Null);
    if a != b {
        return Outcome::fail("custom-tag-json", format!("{} serializes back as {}", c.json, s1));
    }
    Outcome::pass(true).label(format!("tag:{}", a["body"]["type"].as_str().unwrap_or("?")))
}

// ---------------------------------------------------------------------------------------------
// (B) mutation

#[derive(Clone, Debug, Serialize, Deserialize)]
pub struct MutCase {
    pub base: RtCase,
    pub muts: Vec<Mut>,
}

#[derive(Clone, Debug, Serialize, Deserialize)]
pub struct TextCase {
    pub text: String,
}

/// VH_C12_DISCOVER=1: decoding panics are listed (label PANIC-SITE:<site>) instead of judged, so that one run
/// enumerates every panic site behind the first one. Never set in the registered commands.
fn discover(j: Judged, text: &str) -> Judged {
    if std::env::var("VH_C12_DISCOVER").ok().as_deref() == Some("1") {
        if let Judged::Fail(sig, msg) = &j {
            if sig.starts_with("deser-panic-") {
                if let Ok(dir) = std::env::var("VH_C12_DISCOVER_DIR") {
                    // keep the shortest text seen per site
                    let name: String = sig["deser-panic-".len()..].chars().map(|c| if c.is_ascii_alphanumeric() || c == '.' { c } else { '_' }).take(70).collect();
                    let path = format!("{}/{}.txt", dir, name);
                    let old = std::fs::metadata(&path).map(|m| m.len()).unwrap_or(u64::MAX);
                    if (text.len() as u64 + msg.len() as u64 + 1) < old {
                        let _ = std::fs::write(&path, format!("{}\n{}\n{}", text, msg, sig));
                    }
                }
                return Judged::Ok(vec![format!("PANIC-SITE:{} {}", &sig["deser-panic-".len()..], clip(msg, 90))]);
            }
        }
    }
    j
}

pub fn oracle_text(c: &TextCase) -> Outcome {
    match discover(judge_text(&c.text), &c.text) {
        Judged::Err(cls) => Outcome::pass(true).label(format!("res:err:{}", cls)),
        Judged::Ok(ls) => Outcome::pass(true).label("res:ok").labels(ls),
        Judged::Fail(sig, msg) => Outcome::fail(&sig, format!("{} on text {}", msg, clip(&c.text, 700))),
    }
}

pub fn oracle_mut(c: &MutCase) -> Outcome {
    let m = match make(&c.base, 32) {
        Ok(m) => m,
        Err(o) => return o,
    };
    let text = match ser(&m.ctx) {
        Ok(s) => s,
        Err(e) => return Outcome::fail("ser-fail", e),
    };
    let (mutated, applied) = match mutate_text(&text, &c.muts) {
        Some(x) => x,
        None => return Outcome::skip("envelope-not-decodable"),
    };
    let mut labels: Vec<String> = applied.iter().map(|a| format!("mut:{}", a)).collect();
    labels.push(format!("prov:{}", prov_name(c.base.prov)));
    labels.push(format!("n-muts:{}", applied.len()));
    let differs = mutated != text;
    let reaches_inner = outer_parses(&mutated);
    labels.push(if differs { "text:differs".into() } else { "text:unchanged".to_string() });
    labels.push(if reaches_inner { "outer:parses".into() } else { "outer:broken".to_string() });
    let t0 = std::time::Instant::now();
    let judged = discover(judge_text(&mutated), &mutated);
    let dt = t0.elapsed().as_secs_f64();
    if dt > 1.0 {
        labels.push("slow:>1s".into());
        if let Ok(dir) = std::env::var("VH_C12_DISCOVER_DIR") {
            let _ = std::fs::write(format!("{}/slow_{:.0}s_{}.txt", dir, dt, mutated.len()), format!("{}\n{:?}", mutated, applied));
        }
    }
    match judged {
        Judged::Err(cls) => Outcome::pass(differs && reaches_inner).labels(labels).label(format!("res:err:{}", cls)),
        Judged::Ok(ls) => Outcome::pass(differs && reaches_inner).labels(labels).label("res:ok").labels(ls),
        Judged::Fail(sig, msg) => Outcome::fail(&sig, format!("{} | mutations {:?} | text {}", msg, applied, clip(&mutated, 900))),
    }
}

fn arb_mut(kinds: Vec<(u32, MK)>) -> BoxedStrategy<Mut> {
    let ks: Vec<(u32, BoxedStrategy<MK>)> = kinds.into_iter().map(|(w, k)| (w, Just(k).boxed())).collect();
    (proptest::strategy::Union::new_weighted(ks), any::<u16>(), any::<u16>(), any::<u16>(), any::<u8>())
        .prop_map(|(k, a, b, c, v)| Mut { k, a, b, c, v })
        .boxed()
}

fn arb_mut_case(kinds: Vec<(u32, MK)>, max_muts: usize) -> BoxedStrategy<MutCase> {
    let prov = prop_oneof![
        8 => Just(Prov::Plain),
        2 => Just(Prov::Instantiated),
        1 => Just(Prov::Inlined(0)),
        1 => Just(Prov::Optimized),
    ]
    .boxed();
    (arb_rt_case(prov, 7, 2, 2, false), proptest::collection::vec(arb_mut(kinds), 1..=max_muts))
        .prop_map(|(base, muts)| MutCase { base, muts })
        .boxed()
}

// ---------------------------------------------------------------------------------------------
// pinned texts (minimal reproductions of the known decoding panics)

fn empty_payload(patch: J) -> String {
    let mut inner = json!({
        "finalized": false, "graphs": [], "main_graph": null, "graphs_names": [], "nodes_names": [],
        "nodes_annotations": [], "graphs_annotations": []
    });
    if let (Some(o), Some(p)) = (inner.as_object_mut(), patch.as_object()) {
        for (k, v) in p {
            o.insert(k.clone(), v.clone());
        }
    }
    json!({"version": 2, "data": inner.to_string()}).to_string()
}

fn custom_payload(body: J, arg_types: Vec<J>) -> String {
    let k = arg_types.len();
    let mut nodes: Vec<J> = arg_types.into_iter().map(|t| json!({"node_dependencies": [], "graph_dependencies": [], "operation": {"Input": t}})).collect();
    nodes.push(json!({"node_dependencies": (0..k).collect::<Vec<usize>>(), "graph_dependencies": [], "operation": {"Custom": {"body": body}}}));
    empty_payload(json!({"graphs": [{"finalized": false, "nodes": nodes, "output_node": null}]}))
}

pub fn pinned_texts() -> Vec<(&'static str, String)> {
    let one_graph = json!([{"finalized": false, "nodes": [], "output_node": null}]);
    let const_node = |envelope: J| {
        json!([{"finalized": false, "output_node": null, "nodes": [
            {"node_dependencies": [], "graph_dependencies": [], "operation": {"Constant": [{"Scalar": "bit"}, envelope]}}
        ]}])
    };
    let const_node_t = |t: J, envelope: J| {
        json!([{"finalized": false, "output_node": null, "nodes": [
            {"node_dependencies": [], "graph_dependencies": [], "operation": {"Constant": [t, envelope]}}
        ]}])
    };
    vec![
        ("inner-not-json", json!({"version": 2, "data": ""}).to_string()),
        ("inner-missing-field", json!({"version": 2, "data": "{}"}).to_string()),
        ("graphs-annotations-bad-graph-id", empty_payload(json!({"graphs_annotations": [[0, []]]}))),
        ("nodes-annotations-bad-graph-id", empty_payload(json!({"nodes_annotations": [[[0, 0], []]]}))),
        ("nodes-annotations-bad-node-id", empty_payload(json!({"graphs": one_graph, "nodes_annotations": [[[0, 0], ["Private"]]]}))),
        ("constant-value-envelope-not-json", empty_payload(json!({"graphs": const_node(json!({"version": 2, "data": ""}))}))),
        (
            "overflow-concatenate-huge-dimension",
            empty_payload(json!({"graphs": [{"finalized": false, "output_node": null, "nodes": [
                {"node_dependencies": [], "graph_dependencies": [], "operation": {"Input": {"Array": [[9223372036854775808u64, 1], "bit"]}}},
                {"node_dependencies": [0, 0], "graph_dependencies": [], "operation": {"Concatenate": 0}}
            ]}]})),
        ),
        (
            "overflow-constant-huge-bit-array",
            empty_payload(json!({"graphs": const_node_t(json!({"Array": [[18446744073709551615u64], "bit"]}), json!({"version": 2, "data": "{\"body\":{\"Bytes\":[1]}}"}))})),
        ),
        ("custom-goldschmidt-zero-iterations", custom_payload(json!({"type": "GoldschmidtDivision", "iterations": 0, "denominator_cap_2k": 4}), vec![json!({"Array": [[2], "u64"]}), json!({"Array": [[2], "u64"]})])),
        ("custom-approx-gelu-precision-1", custom_payload(json!({"type": "ApproxGelu", "precision": 1, "approximation_log_buckets": 5}), vec![json!({"Array": [[3], "i64"]})])),
        ("custom-apply-permutation-mpc-empty-tuple", custom_payload(json!({"type": "ApplyPermutationMPC", "inverse_permutation": false, "reveal_output": true}), vec![json!({"Tuple": []}), json!({"Array": [[1], "i16"]})])),
        // controls: the same shapes with valid content must load
        ("control-empty-context", empty_payload(json!({}))),
        ("control-constant", empty_payload(json!({"graphs": const_node(json!({"version": 2, "data": "{\"body\":{\"Bytes\":[1]}}"}))}))),
        ("control-name-tables-bad-id", empty_payload(json!({"graphs_names": [[3, "g"]]}))),
    ]
}

/// minimal payloads: k inputs of one type feeding one Custom node of every library tag
pub fn custom_arg_texts() -> Vec<String> {
    let types = vec![
        json!({"Scalar": "bit"}),
        json!({"Array": [[2, 3], "i32"]}),
        json!({"Array": [[4], "u64"]}),
        json!({"Array": [[3], "i64"]}),
        json!({"Array": [[2, 8], "bit"]}),
        json!({"Tuple": [{"Array": [[2], "i64"]}, {"Array": [[2], "i64"]}, {"Array": [[2], "i64"]}]}),
        json!({"NamedTuple": [["key", {"Array": [[2, 4], "bit"]}], ["v", {"Array": [[2], "u8"]}]]}),
    ];
    let mut out = vec![];
    let mut seen = std::collections::BTreeSet::new();
    for op in library_custom_ops() {
        let opj: J = serde_json::from_str(&op).unwrap();
        let tag = opj["body"]["type"].as_str().unwrap_or("").to_string();
        // two parameterisations per tag are enough here
        let n = seen.iter().filter(|t: &&(String, usize)| t.0 == tag).count();
        if n >= 2 {
            continue;
        }
        seen.insert((tag, n));
        for k in 0..=4usize {
            for t in &types {
                if k == 0 && t != &types[0] {
                    continue;
                }
                let mut nodes: Vec<J> = (0..k).map(|_| json!({"node_dependencies": [], "graph_dependencies": [], "operation": {"Input": t}})).collect();
                nodes.push(json!({"node_dependencies": (0..k).collect::<Vec<usize>>(), "graph_dependencies": [], "operation": {"Custom": opj}}));
                out.push(empty_payload(json!({"graphs": [{"finalized": false, "nodes": nodes, "output_node": null}]})));
            }
        }
    }
    out
}

// ---------------------------------------------------------------------------------------------

fn want(name: &str) -> bool {
    match std::env::var("VH_C12_ONLY") {
        Ok(v) if !v.is_empty() => v.split(',').any(|x| x == name),
        _ => true,
    }
}

pub fn run(env: &Env) {
    if want("rt-order") {
        env.campaign(
            "rt-order",
            "contexts built through unusual API call orders (graphs created/finalized in any order, calls towards older and younger graphs, outputs anywhere); what the builder lets through must round-trip",
            env.n(20_000, 500_000),
            crate::c12_order::arb_case,
            crate::c12_order::oracle,
        );
    }
    env.assume("text equality is demanded only for two serializations of the SAME context object; a reloaded context is compared by deep_equal, an independent getter-level comparison and JSON-value equality of its re-serialization (object key order ignored: Join header maps)");
    env.assume("a pass (instantiate/inline/optimize/compile) that rejects or panics on a decorated recipe is counted as a skip: C12 judges serialization of the contexts the library does produce");
    env.assume("evaluation equality uses SimpleEvaluator::new(Some(seed)) with the same seed on both sides (deep-equal graphs draw randomness in the same order); a runtime error must be the same error on both sides");
    env.set_shrink_iters(600);
    let steps = env.pick(10, 18);
    if want("rt-plain") {
    env.campaign(
        "rt-plain",
        "decorated plain contexts (names, annotations, 128-bit constants, parameterised custom ops, Join/Print/Assert/Gather, Call/Iterate, unfinalized variants): full round-trip oracle",
        env.n(6000, 150_000),
        move || arb_rt_case(Just(Prov::Plain).boxed(), steps, 2, 4, false),
        oracle_rt,
    );
    }
    if want("rt-passes") {
    env.campaign(
        "rt-passes",
        "images under run_instantiation_pass, inline_operations (simple / depth-optimised default / extreme), optimize_context: full round-trip oracle (types were supplied by the passes, re-inferred on load)",
        env.n(4000, 100_000),
        move || arb_rt_case(arb_prov_pass(), steps, 2, 3, false),
        oracle_rt,
    );
    }
    env.set_shrink_iters(60);
    if want("rt-compiled") {
    env.campaign(
        "rt-compiled",
        "compile_context output (Send/PRF annotations, hundreds to thousands of nodes, supplied types): full round-trip oracle",
        env.n(400, 10_000),
        move || arb_rt_case(Just(Prov::Compiled).boxed(), steps + 4, 2, 2, true),
        oracle_rt,
    );
    }
    if want("custom-op-tags") {
    env.enumerate(
        "custom-op-tags",
        "every custom-operation tag registered by the library (public and MPC-internal) with parameters: CustomOperation JSON -> value -> JSON is stable and equal",
        library_custom_ops().into_iter().map(|json| TagCase { json }).collect(),
        oracle_tag,
    );
    }
    if want("custom-op-args") {
    env.enumerate_opt(
        "custom-op-args",
        "every library custom-operation tag x 0..4 arguments x 7 argument types (bit scalar, i32/u64/i64 arrays, bit matrix, 3-tuple of arrays, named tuple) in a minimal payload: from_str must return Err or a well-formed context",
        custom_arg_texts().into_iter().map(|text| TextCase { text }).collect(),
        false,
        oracle_text,
    );
    }
    env.set_shrink_iters(1500);
    if want("mut-ids") {
    env.campaign(
        "mut-ids",
        "mutations that keep the payload decodable: ids in dependency/output/main/name/annotation tables, swaps, finalized flips, operation copy/replacement (every library custom tag), parameter leaves",
        env.n(120_000, 3_000_000),
        || arb_mut_case(structural_kinds(), 4),
        oracle_mut,
    );
    }
    if want("mut-shape") {
    env.campaign(
        "mut-shape",
        "mutations of the encoding itself: field deletion/duplication/retyping, unknown operation/custom tag, corrupted Constant Value envelope, version, truncation of inner/outer text, non-JSON data",
        env.n(60_000, 1_500_000),
        || arb_mut_case(shape_kinds(), 2),
        oracle_mut,
    );
    }
    for (name, text) in pinned_texts() {
        env.pinned(name, &TextCase { text }, oracle_text);
    }
}

pub fn replay(check: &str, case: J) -> Outcome {
    if check == "rt-order" {
        return replay_with::<crate::c12_order::OrderCase, _>(case, crate::c12_order::oracle);
    }
    match check {
        "rt-plain" | "rt-passes" | "rt-compiled" => replay_with::<RtCase, _>(case, oracle_rt),
        "custom-op-tags" => replay_with::<TagCase, _>(case, oracle_tag),
        "custom-op-args" => replay_with::<TextCase, _>(case, oracle_text),
        "mut-ids" | "mut-shape" => replay_with::<MutCase, _>(case, oracle_mut),
        _ => replay_with::<TextCase, _>(case, oracle_text),
    }
}
