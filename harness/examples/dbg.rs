use ciphercore_base::data_types::*;
use ciphercore_base::data_values::Value;
use ciphercore_base::evaluators::simple_evaluator::SimpleEvaluator;
use ciphercore_base::evaluators::Evaluator;
use ciphercore_base::graphs::*;
use ciphercore_base::inline::inline_ops::*;
use ciphercore_base::mpc::mpc_compiler::*;
fn main() {
    let n: u64 = std::env::args().nth(1).unwrap().parse().unwrap();
    let c = create_context().unwrap();
    let g = c.create_graph().unwrap();
    let a = g.input(array_type(vec![n], UINT8)).unwrap();
    let p = g.input(array_type(vec![n], UINT64)).unwrap();
    let o = g.apply_permutation(a, p).unwrap();
    o.set_as_output().unwrap();
    g.finalize().unwrap();
    c.set_main_graph(g).unwrap();
    c.finalize().unwrap();
    let m = compile_context(
        c,
        vec![IOStatus::Party(1), IOStatus::Party(2)],
        vec![IOStatus::Party(2)],
        InlineConfig { default_mode: InlineMode::Simple, ..Default::default() },
        || SimpleEvaluator::new(Some([1; 16])),
    )
    .unwrap();
    for s in 0..20u8 {
        let mut ev = SimpleEvaluator::new(Some([s; 16])).unwrap();
        let av: Vec<u8> = (0..n as u8).map(|x| x + 10).collect();
        let pv: Vec<u64> = (0..n).rev().collect();
        let r = ev.evaluate_graph(
            m.get_context().get_main_graph().unwrap(),
            vec![Value::from_flattened_array(&av, UINT8).unwrap(), Value::from_flattened_array(&pv, UINT64).unwrap()],
        );
        println!("{} {:?}", s, r.map(|v| v.to_flattened_array_u64(array_type(vec![n], UINT8))));
    }
}
