#!/bin/sh
# usage: check.sh <Cnn> [quick|thorough]   (cwd independent)
# Rebuilds the harness against /repo's current working tree (path dependency), then runs one check.
# exit 0 = property held on everything explored; 1 = VIOLATION line printed; 2 = inconclusive
# (watchdog/abort); 3 = build failure.
ID="$1"; TIER="${2:-${VERIF_TIER:-quick}}"
ROOT="$(cd "$(dirname "$0")" && pwd)"
cd "$ROOT/harness" || exit 3
export CARGO_NET_OFFLINE=true RUST_BACKTRACE=0 RUST_LIB_BACKTRACE=0
FEAT=""; TDIR="target"
case "$ID" in
  *-small) FEAT="--features small"; TDIR="target-small";;
esac
if ! cargo build --release --offline $FEAT --target-dir "$TDIR" >"$ROOT/harness/build-$TDIR.log" 2>&1; then
  echo "BUILD FAILED: harness does not build against /repo (see harness/build-$TDIR.log)"
  grep -E "^error" -A8 "$ROOT/harness/build-$TDIR.log" | head -40
  exit 3
fi
VERIF_TIER="$TIER" VERIF_ROOT="$ROOT" exec "./$TDIR/release/vharness" "${ID%-small}"
