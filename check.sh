#!/bin/sh
# usage: check.sh <Cnn> [quick|thorough]   (cwd independent)
# Rebuilds the harness against /repo's current working tree (path dependency), then runs one check.
# exit 0 = property held on everything explored; 1 = VIOLATION line printed; 2 = inconclusive
# (watchdog/abort); 3 = build failure.
ID="$1"; TIER="${2:-${VERIF_TIER:-quick}}"
ROOT="$(cd "$(dirname "$0")" && pwd)"
cd "$ROOT/harness" || exit 3
export CARGO_NET_OFFLINE=true RUST_BACKTRACE=0 RUST_LIB_BACKTRACE=0
build() { # $1 = target dir, $2 = extra cargo flags
  if ! cargo build --release --offline $2 --target-dir "$1" >"$ROOT/harness/build-$1.log" 2>&1; then
    echo "BUILD FAILED: harness does not build against /repo (see harness/build-$1.log)"
    grep -E "^error" -A8 "$ROOT/harness/build-$1.log" | head -40
    exit 3
  fi
}
build target ""
if [ "$ID" = "C11" ]; then
  # C11 also runs under ciphercore-base's own `fuzzing` feature (small type-size limits) so that
  # the size-limit rollback paths are reached; its evidence is embedded in evidence/C11.json
  build target-small "--features small"
  VERIF_TIER="$TIER" VERIF_ROOT="$ROOT" VH_EVIDENCE_NAME=C11-small ./target-small/release/vharness C11
  rc=$?
  [ $rc -ne 0 ] && exit $rc
  VERIF_TIER="$TIER" VERIF_ROOT="$ROOT" VH_EMBED="$ROOT/evidence/C11-small.json" exec ./target/release/vharness C11
fi
VERIF_TIER="$TIER" VERIF_ROOT="$ROOT" exec ./target/release/vharness "$ID"
