#!/usr/bin/env python3
"""Sensitivity mutants (applied to a SCRATCH copy of the repository, never to /repo).
usage: mutants.py <repo_root> <mutant-id>|list        (revert by rsync from /repo)"""
import sys
M = {
 # id: (file, old, new, description, expected catcher)
 "reshare-misaddress": ("ciphercore-base/src/mpc/resharing.rs",
   "sent_share.add_annotation(NodeAnnotation::Send(i as u64, im1))?;",
   "sent_share.add_annotation(NodeAnnotation::Send(i as u64, ((i + 1) % PARTIES) as u64))?; let _ = im1;",
   "reshare sends the masked share to party i+1 instead of i-1", "C02"),
 "reshare-nosend": ("ciphercore-base/src/mpc/resharing.rs",
   "sent_share.add_annotation(NodeAnnotation::Send(i as u64, im1))?;",
   "let _ = im1;",
   "reshare never sends", "C02"),
 "reshare-nomask": ("ciphercore-base/src/mpc/resharing.rs",
   "vec![input_shares_vec[i].clone(), zero_shares[i].clone()],",
   "vec![input_shares_vec[i].clone()],",
   "reshare sends the product share without the fresh zero share (result unchanged, leaks)", "C03"),
 "product-wrong-share": ("ciphercore-base/src/mpc/mpc_arithmetic.rs",
   "let z3 = bilinear_product(shares0[ip1].clone(), shares1[i].clone(), op.clone())?;",
   "let z3 = bilinear_product(shares0[ip1].clone(), shares1[ip1].clone(), op.clone())?;",
   "private_product uses y_(i+1) in the cross term", "C01"),
 "uniquify-per-graph": ("ciphercore-base/src/mpc/mpc_compiler.rs",
   "    for graph in graphs {\n        let out_graph = new_context.create_graph()?;\n        let nodes = graph.get_nodes();\n        for node in nodes {\n            let op = node.get_operation();\n            let op = if op.is_prf_operation() {",
   "    for graph in graphs {\n        prf_id = 0;\n        let out_graph = new_context.create_graph()?;\n        let nodes = graph.get_nodes();\n        for node in nodes {\n            let op = node.get_operation();\n            let op = if op.is_prf_operation() {",
   "uniquify_prf_id numbers per graph", "C04"),
 "uniquify-skip-perm": ("ciphercore-base/src/graphs.rs",
   "            Operation::PermutationFromPRF(_, size) => {\n                Ok(Operation::PermutationFromPRF(prf_id, *size))",
   "            Operation::PermutationFromPRF(iv, size) => {\n                let _ = prf_id;\n                Ok(Operation::PermutationFromPRF(*iv, *size))",
   "update_prf_id leaves PermutationFromPRF counters at 0", "C04"),
 "dedup-prf": ("ciphercore-base/src/optimizer/duplicates_optimizer.rs",
   "if op.is_prf_operation() || op.is_randomizing()? || op.is_input() {",
   "if op.is_randomizing()? || op.is_input() {",
   "duplicates optimiser merges PRF nodes with equal key and counter", "C04"),
 "random-not-randomizing": ("ciphercore-base/src/graphs.rs",
   "            Operation::Random(_)\n            | Operation::RandomPermutation(_)\n            | Operation::CuckooToPermutation\n            | Operation::DecomposeSwitchingMap(_) => Ok(true),\n            Operation::Input(_)",
   "            Operation::RandomPermutation(_)\n            | Operation::CuckooToPermutation\n            | Operation::DecomposeSwitchingMap(_) => Ok(true),\n            Operation::Random(_)\n            | Operation::Input(_)",
   "Random declared non-randomising (merged by dedup / folded)", "C04"),
 "reveal-forward-all": ("ciphercore-base/src/mpc/mpc_compiler.rs",
   "                if output_parties.contains(&IOStatus::Party(party_to_send_id as u64)) {",
   "                if true || output_parties.contains(&IOStatus::Party(party_to_send_id as u64)) {",
   "reveal_output forwards the result to every party when >=2 output parties are listed", "C03"),
 "ot-same-mask": ("ciphercore-base/src/mpc/utils.rs",
   "        let r1 = g.prf(prf_key, 0, input_type.clone())?;",
   "        let r1 = r0.clone(); let _ = prf_key;",
   "oblivious transfer masks both messages with the same mask", "C03"),
 "share-extra-send": ("ciphercore-base/src/mpc/mpc_compiler.rs",
   "        network_node.add_annotation(NodeAnnotation::Send(i as u64, im1))?;\n        outputs.push(network_node);",
   "        network_node.add_annotation(NodeAnnotation::Send(i as u64, im1))?;\n        network_node.add_annotation(NodeAnnotation::Send(i as u64, ((i + 1) % PARTIES) as u64))?;\n        outputs.push(network_node);",
   "share_node sends every share to both other parties", "C03"),
 "dedup-ignore-annotations": ("ciphercore-base/src/optimizer/duplicates_optimizer.rs",
   [("        self.deps == other.deps && self.annotations == other.annotations && self.op == other.op",
     "        self.deps == other.deps && self.op == other.op"),
    ("        self.annotations.hash(state);\n", "")],
   None,
   "duplicates optimiser ignores annotations (merges a sent NOP with its un-sent twin)", "C02/C06"),
 "a2b-local": ("ciphercore-base/src/mpc/resharing.rs",
   "                | Operation::Truncate(_)\n                | Operation::A2B\n                | Operation::B2A(_)",
   "                | Operation::Truncate(_)\n                | Operation::B2A(_)",
   "A2B no longer forces its (possibly 3-out-of-3) input to be reshared: falls to the 'unrecognized operation' arm -> compile error (control: must be reported as compiler rejection, not violation)", "none"),
 "const-fold-annotated": ("ciphercore-base/src/optimizer/constant_optimizer.rs",
   "                if is_const_node && node.get_annotations()?.is_empty() {",
   "                if is_const_node {",
   "constant folder folds annotated nodes (a Send-carrying NOP over constants becomes a Constant: the marker is lost)", "C06 / C02"),
 "b2a-drop-key-send": ("ciphercore-base/src/mpc/mpc_compiler.rs",
   "            keys[0][2] = keys[0][2].nop()?;\n            keys[0][2].add_annotation(NodeAnnotation::Send(2, 0))?;",
   "            keys[0][2] = keys[0][2].nop()?;",
   "B2A key k_02 is never sent from party 2 to party 0", "C02"),
}
def main():
    root, mid = sys.argv[1], sys.argv[2]
    if mid == "list":
        for k, v in M.items(): print(k, "|", v[3], "| expect", v[4])
        return
    f, old, new, _, _ = M[mid]
    p = f"{root}/{f}"
    s = open(p).read()
    pairs = old if isinstance(old, list) else [(old, new)]
    for o, n in pairs:
        assert s.count(o) == 1, f"pattern occurs {s.count(o)} times"
        s = s.replace(o, n)
    open(p, "w").write(s)
    print("applied", mid, "to", p)
main()
