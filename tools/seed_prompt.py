#!/usr/bin/env python3
import json,sys
pid=sys.argv[1]
for l in open('/verif/properties.jsonl'):
    p=json.loads(l)
    if p['id']==pid: break
wt=f"/tmp/seed{sys.argv[2] if len(sys.argv)>2 else ''}_{pid}"
hint=(" NOTE: another engineer has already produced a change for this property that modified " + sys.argv[3] + ". Your change must use a DIFFERENT mechanism and a different code site, and should need a different kind of trigger.") if len(sys.argv)>3 else ""
print(f"""You are helping to evaluate a verification effort by acting as a careful, realistic "bug author". You work ONLY inside the git worktree {wt} (a checkout of the Rust project ciphercore: a compiler from typed computation graphs to ABY3 three-party MPC protocol graphs, with type inference, optimizer, inliner and a local evaluator; the main crate is ciphercore-base). Do not read or write anything under /verif or /repo, and do not look at other /tmp/seed_* or /tmp/w_* directories. There is no network; build with `cargo ... --offline`. The machine is shared: use `-j4` for cargo builds and do not run more than one cargo command at a time.

Here is a semantic property that the code base is supposed to satisfy:

  Title: {p['title']}
  Statement: {p['statement']}
  Quantified over: {p['quantifier']['text']}
  Why the existing tests cannot settle it: {p['why_tests_cant']}
  Code it is anchored in: {', '.join(p['anchors']['files'])}

YOUR TASK:"""+hint+""" Make ONE small source change (a plausible mistake a maintainer could make in a refactoring or an "optimisation": a few lines, in the anchored code or code it relies on) that BREAKS this property, such that
  (1) the workspace still compiles (`cargo build -p ciphercore-base --offline -j4`),
  (2) the existing test suite still passes: at the very least run the unit tests of every module you touched and of the modules that exercise it, e.g. `cargo test -p ciphercore-base --offline --lib -j4 <module_path_filter>`; then, if time permits, the whole suite `cargo test -p ciphercore-base --offline --lib -j4` (it has ~450 tests and takes a long time on this loaded machine; report exactly which test commands you ran and their pass counts). If an existing test fails, your change is not acceptable: find another one.
  (3) the breakage needs something SPECIFIC to manifest — a particular unusual input or parameter combination, a multi-step sequence of API calls, a specific size/width/length threshold, a particular configuration, or two cooperating code sites that each look fine alone — and is NOT exposed at once by ordinary simple use (the trivial examples in the documentation and tests must keep working).
Do not weaken or delete tests, and do not add cfg flags or dead code: it must be a real behavioural change.

DELIVERABLES (create the directory {wt}/out/):
  a. `{wt}/out/patch.diff` — `git diff` of your change against HEAD (source change only, without the demonstration).
  b. A demonstration that FAILS with your change and PASSES on the unchanged code: preferably a self-contained Rust integration test file `{wt}/out/demo.rs` that can be dropped into `ciphercore-base/tests/demo.rs` and run with `cargo test -p ciphercore-base --offline --test demo -j4` (it may only use the public API of ciphercore_base), or alternatively a `#[cfg(test)]` unit test given as a separate diff `{wt}/out/demo_test.diff`. Verify BOTH directions yourself (with the change: fails; after reverting the source change with `git diff > /tmp/my.diff; git apply -R /tmp/my.diff` (and re-applying it afterwards with `git apply /tmp/my.diff`): passes. Do NOT use `git stash`: the stash is shared between all worktrees of this repository and other people are working in sibling worktrees) and record the commands and outputs.
  c. `{wt}/out/notes.md` — which sentence of the property is broken, what exactly is needed for the breakage to manifest (inputs / sequence / configuration), why existing tests do not notice, and the test commands you ran with their results.
When you are done, leave the worktree with your source change APPLIED (uncommitted) and the demonstration file only under out/. Finally delete the build output to save disk: `rm -rf {wt}/target`.
Keep your final answer short (<= 25 lines): the idea of the change, what it needs to manifest, and the verification you performed.""")
