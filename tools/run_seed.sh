#!/bin/bash
# usage: run_seed.sh <seed-id> "<check ids>" [scale]   (scratch /tmp/w_seed; patch from /verif/seeded/<id>/patch.diff or /tmp/seed_<id>/out/patch.diff)
ID="$1"; CHECKS="$2"; SCALE="${3:-1}"
W=${SEEDW:-/tmp/w_seed}
P=/verif/seeded/$ID/patch.diff; [ -f "$P" ] || P=/tmp/seed_$ID/out/patch.diff; case "$ID" in *b) [ -f /verif/seeded/$ID/patch.diff ] || P=/tmp/seed2_${ID%b}/out/patch.diff;; *c) [ -f /verif/seeded/$ID/patch.diff ] || P=/tmp/seed3_${ID%c}/out/patch.diff;; esac
rsync -a --exclude target --exclude .git /repo/ "$W/repo/"; touch "$W/repo/ciphercore-base/src/lib.rs"
rsync -a --exclude target --exclude target-small --exclude Cargo.toml /verif/harness/ "$W/harness/"
cp /verif/known_findings.jsonl "$W/out/"
(cd "$W/repo" && patch -p1 --no-backup-if-mismatch < "$P" >/dev/null) || { echo "$ID: patch failed"; exit 9; }
(cd "$W/harness" && cargo build --release --offline -j8 >"$W/out/build-$ID.log" 2>&1) || { echo "$ID: BUILD FAILED"; exit 9; }
for c in $CHECKS; do
  t0=$(date +%s)
  out=$(cd "$W/harness" && VERIF_ROOT="$W/out" VH_THREADS=8 VH_SCALE=$SCALE ./target/release/vharness $c 2>&1); rc=$?
  t1=$(date +%s)
  echo "seed=$ID check=$c exit=$rc $((t1-t0))s $(echo "$out" | grep -m1 -A1 VIOLATION | tr '\n' ' ' | cut -c1-300)"
done
rsync -a --exclude target --exclude .git /repo/ "$W/repo/"; touch "$W/repo/ciphercore-base/src/lib.rs"
