#!/usr/bin/env python3
"""Writes /verif/seeded/<id>/meta.json from the table below (results of running the checks against
each seeded change in the scratch copy /tmp/w_seed: harness rsynced from /verif/harness, repository
rsynced from /repo with the patch applied, `vharness <Cnn>` quick tier, then reverted)."""
import json, os

COMMON_RAN = ("independent sub-agent given only the property text and a scratch git worktree of /repo; "
              "confirmed by tools/verify_seed.sh in that worktree: demo fails with the change (rc 101), passes with the "
              "change reverted (rc 0), `cargo test --workspace --no-fail-fast --offline --lib --bins --tests` passes with the "
              "change (453 tests); checks run by tools/run_seed.sh (scratch copy of /repo with patch.diff applied, "
              "quick tier, VH_THREADS=8), scratch copy reverted afterwards")

S = {
 "C01": dict(breaks="C01 (also C02)", file="mpc/mpc_arithmetic.rs (SubtractMPC, private - public)",
   needs="Subtract with a private minuend and a LARGER-shaped public subtrahend (the private operand is broadcast) whose result is not revealed at once (feeds Sum/CumSum/Stack..., or output kept shared): shares 1 and 2 keep the small shape",
   detection=[("C01","caught","4 s","revealed-output"),("C02","caught","1 s","p3-output")],
   note="caught both by the generator as committed before (a larger public partner happened to be in the pool) and after adding an explicit larger-partner broadcasting variant"),
 "C02": dict(breaks="C02", file="mpc/mpc_compiler.rs (reveal_output)",
   needs="private output revealed to >=2 parties listed in an order where a later-listed party has a smaller id than the first (e.g. [2,0]): the wrap-around of the forwarding loop is gone, that party never receives the result",
   detection=[("C02","caught","<1 s","p3-output"),("C01","not caught (expected: a single global evaluator cannot see a missing Send)","8 s","")]),
 "C03": dict(breaks="C03", file="mpc/mpc_compiler.rs (recursively_generate_node_shares, Type::Vector)",
   needs="a private Vector of length >=2 (e.g. CreateVector of two private products) reshared as a whole: every element is masked with the SAME zero share, so element differences reach a party unmasked; no evaluated result changes",
   detection=[("C03 (as committed before the seed was read)","MISSED","74 s",""),("C03 (after adding vector/tuple kinds and the 'two products gathered into one container' family to the exhaustive and sampled tiers)","caught","349 s incl. shrinking","view-distribution-differs (exact histograms, exhaustive tier)")],
   note="strengthened: graphgen MkVector 'distinct recent nodes' mode, c03 container-of-products family"),
 "C04": dict(breaks="C04", file="optimizer/duplicates_optimizer.rs (NodeKey::new)",
   needs=">=2 RandomPermutation nodes of equal length in one inlined graph given to optimize_context (in compiler output: joins): they are merged into one draw",
   detection=[('C04', 'caught', '13 s', 'opt-random-merged'), ('C06', 'caught', '2 s', 'output-value')]),
 "C05": dict(breaks="C05", file="mpc/mpc_compiler.rs (Truncate compilation)",
   needs="128-bit type, divisor 2^k with 65 <= k <= 126, |x| >= 2^64: k is taken from the low 64 bits of the scale",
   detection=[("C05","caught","7 s","pow2-out-of-band")]),
 "C06": dict(breaks="C06 (also C04)", file="graphs.rs (Operation::is_randomizing)",
   needs="CuckooToPermutation on a table with >=2 dummy cells, either twice on the same argument or on a constant argument: merged / constant-folded by the optimiser",
   detection=[("C06, C04 (as committed before the seed was read: CuckooToPermutation was not generated)","MISSED","-",""),("C06 (after adding CuckooToPerm / DecomposeSwitch kinds to graphgen)","caught","1 s","output-value"),("C04 (same)","caught","11 s","opt-random-folded")],
   note="strengthened: graphgen K::CuckooToPerm, K::DecomposeSwitch in c04::opt_kinds and c06 kind lists"),
 "C07": dict(breaks="C07", file="inline/data_structures.rs (prefix_sums_segment_tree)",
   needs="DepthOptimized(Default), Iterate length >= 16, annotated body with non-empty per-step output and a NON-commutative combine",
   detection=[("C07","caught","1 s","mismatch:onebit-segtree:outputs")]),
 "C08": dict(breaks="C08", file="ops/integer_key_sort.rs (get_name)",
   needs="two SortByIntegerKey instantiations with different key on the same table type in one context (this is the revert of fix bacbce4)",
   detection=[("C08","caught","<1 s","name-collision-SortByIntegerKey (pinned regression of a fixed finding)")]),
 "C09": dict(breaks="C09", file="type_inference.rs (Concatenate)",
   needs="concatenate along axis >= 1 of arrays whose dimensions BEFORE the axis differ: accepted, evaluator panics (or silently drops rows)",
   detection=[("C09, C10 (as committed before the seed was read)","MISSED","132 s / 33 s",""),("C09 (after adding the near-miss variant 'a dimension before the axis differs' to the must-reject table)","caught","1 s","accepted-misfit:Concat.6")],
   note="strengthened: c09_util Concat variant 6"),
 "C10": dict(breaks="C10", file="evaluators/simple_evaluator.rs (general_gemm)",
   needs="Gemm with a rank-4 operand whose batch shape has a size-1 dimension after a dimension > 1 (e.g. [2,1,2,3] x [2,3,4,3])",
   detection=[("C10","caught","<1 s","value-Gemm")]),
 "C11": dict(breaks="C11", file="graphs.rs (remove_last_node / Context::unregister_node)",
   needs="a node rejected by a size check (after type inference succeeded) in a graph that has no named node yet, then another node added: the stale cached type is inherited",
   detection=[('C11', 'caught', '2 s', 'removal-changes-outcome:rollback:size-invalid:add_node (removal oracle)')]),
 "C12": dict(breaks="C12", file="graphs.rs (recover_original_context, name tables)",
   needs="a mutated payload with in-range ids but duplicated names / duplicated name-table keys: accepted, name lookups inconsistent",
   detection=[("C12","caught","7 s","deser-illformed-graph-name (mut-ids, mutation DupName)")]),
 "C13": dict(breaks="C13", file="typed_value_serialization.rs (visit_i64)",
   needs="type i128, negative value in [-2^63, -1] through the JSON path: zero-extended",
   detection=[("C13","caught","2 s","json-value")]),
 "C14": dict(breaks="C14", file="random.rs (PRNG::get_random_value, Type::Vector)",
   needs="sharing a value whose type contains a Vector with >=2 elements: random shares are n clones of one element, so one party can compute differences of secret elements",
   detection=[('C14', 'caught', '30 s', 'junk-equals-share (parties)')]),
 "C15": dict(breaks="C15", file="evaluators/simple_evaluator.rs (PRF cache key)",
   needs="two distinct keys agreeing in their first 8 bytes evaluated by the same evaluator instance, compared with another instance/order",
   detection=[("C15","caught","3 s","prf-impure")]),
 "C16": dict(breaks="C16", file="ops/comparisons.rs (build_comparison_graph remainder join order)",
   needs="bit width with >=3 set bits (7, 11, 13, ...) and operands that differ in opposite directions in two lower bit groups",
   detection=[("C16","caught","2 s","wrong-result:Le/u (boundary sweep)")]),
 "C17": dict(breaks="C17", file="ops/adder.rs (calculate_carry_bits)",
   needs="BinaryAdd with overflow_bit = true on 2-bit operands (also LongDivision with a 2-bit divisor)",
   detection=[("C17","caught","2 s","add-shape (add-grid)")]),
 "C18": dict(breaks="C18", file="evaluators/simple_evaluator.rs (get_sorting_permutation)",
   needs="sort key wider than 64 bits ([n,b] BIT key with b > 64, or SortByIntegerKey on 128-bit types)",
   detection=[('C18', 'caught', '7 s', 'int-sort-key-order (sort-int, u128 keys)')]),
 "C19": dict(breaks="C19", file="mpc/mpc_psi.rs (compute_oprf mask)",
   needs="compiled join whose second table has >= 4 void rows (first table for Full): all void rows get the same OPRF value and cuckoo hashing aborts deterministically",
   detection=[("C19 (as committed before the seed was read: every 'Cuckoo hashing failed' was tolerated as the documented abort)", 'MISSED (by construction)', '-', ''), ('C19 (after adding the rule: an abort that persists under 8 of 8 independent evaluator seeds is not the documented negligible-probability event)', 'caught', '43 s', 'compiled-cuckoo-abort-persistent')],
   note='strengthened: c19 persistent cuckoo-abort rule'),
 "C20": dict(breaks="C20", file="ops/taylor_exponent.rs (max_exp_bits)",
   needs="TaylorExponent with precision <= 14 and input >= 16 ln 2 (~11.09) inside the documented range",
   detection=[("C20 (as committed before the seed was read: TaylorExponent domain stopped at x = 10, the interval the repository's tests sweep)", 'MISSED (by construction: the change needs x >= 11.09)', '-', ''), ('C20 (after extending the domain to the documented exponent bound, 31 - p binary digits)', 'caught', '205 s (box loaded)', 'taylor-rel (taylor-grid)')],
   note='strengthened: c20 Taylor domain'),
 "C01b": dict(breaks="C01 (join part; judged by C19)", file="mpc/mpc_psi.rs (JoinMPC step 15: selection bits without the match_bits term)",
   needs="a matched row whose key is mapped to the same cuckoo slot by two hash functions (probability ~1/64 per evaluation for small tables): payload added twice, match bit cancels",
   detection=[("C19","caught","86 s","p3-output (three-party tier; the compiled tier needs the same collision)"),("C01","not caught (C01 does not generate joins; joins are C19's domain)","32 s","")]),
 "C02b": dict(breaks="C02", file="mpc/resharing.rs (MixedMultiply / ApplyPermutation arm of compute_graph_resharing)",
   needs="MixedMultiply (or ApplyPermutation) with a private second operand whose first operand is a pending product of two private values not reshared for another consumer",
   detection=[('C02', 'caught', '3 s', 'p3-output'), ('C01', 'not caught (expected: global evaluation is unaffected)', '45 s', '')]),
 "C03b": dict(breaks="C03", file="mpc/resharing.rs (local_operation_handler: any -> all)",
   needs="a multi-input non-broadcasting local operation (CreateTuple, CreateVector, Concatenate, ...) holding an un-reshared private product next to a reshared value, revealed to a party: raw product shares are sent",
   detection=[("C03 (with the container-of-products family)","MISSED","160 s",""),("C03 (family extended with product + non-product containers)","MISSED: the matching cases need 2^15 relevant tape assignments x 8 inputs, above the quick budget of the exhaustive tier (they are within the thorough budget)","56 s",""),("C03 (after adding the pinned exhaustive case CreateTuple(x*y, w), 2^15 tapes x 8 assignments)","caught","13 s","view-distribution-differs (pinned tuple-of-product-and-input)")],
   note="strengthened: c03 pinned case; generated cases of this shape are only within the thorough budget"),
 "C04b": dict(breaks="C04", file="graphs.rs (Operation::is_const_optimizable as an explicit list)",
   needs="CuckooToPermutation / DecomposeSwitchingMap whose arguments are all constants: folded into a Constant",
   detection=[('C04', 'caught', '10 s', 'opt-random-folded'), ('C06', 'caught', '2 s', 'output-value')]),
 "C05b": dict(breaks="C05", file="mpc/mpc_truncate.rs (TruncateMPC2K step 0 offset)",
   needs="INT128, power-of-two divisor, input an exact multiple of the divisor, tape with zero low mask bits: floor - 1",
   detection=[("C05","caught","4 s","pow2-out-of-band")]),
 "C06b": dict(breaks="C06", file="optimizer/duplicates_optimizer.rs (dependency ids sorted for Add/Multiply/Dot)",
   needs="the same two nodes fed to Dot in both orders with >= 1 operand of rank >= 2: dot(b,a) replaced by dot(a,b)",
   detection=[("C06 (as committed when first tried)","reported a violation, but through a check that was too strict (operand POSITION of a Send-carrying argument; merging Add(x,y) with Add(y,x) is legitimate) - the check was corrected, see DESIGN 7.4","4 s","send-dep-dropped"),("C06 (position-independent check + DupSwap kind: an existing two-operand node re-added with swapped operands)","caught","1 s","output-value"),("C04","not caught (not a randomness property)","8 s","")],
   note="strengthened: graphgen K::DupSwap; c06/c04 dependency checks made position-independent"),
 "C07b": dict(breaks="C07", file="inline/exponential_inliner.rs (one_hot_encode pairwise product drops the odd leftover)",
   needs="SmallState body with state width exactly 3, depth-optimised mode",
   detection=[("C07","caught","8 s","mismatch:small-logsum:final-state")]),
 "C09b": dict(breaks="C09", file="evaluators.rs (evaluate_graph frees the output node's value)",
   needs="the designated output node is also an argument of a later node (also inside Call/Iterate bodies): evaluation panics",
   detection=[('C09', 'caught', '1 s', 'panic:evaluators.rs:138 (stock evaluate_graph)'), ('C07', 'caught', '94 s', 'recipe-inlined-eval-panic')]),
 "C11b": dict(breaks="C11", file="graphs.rs (Context::set_node_name inserts before the duplicate test)",
   needs="a rejected duplicate node name followed by a lookup by name",
   detection=[("C11","caught","1 s","err-mutates-getters:set_node_name (pinned walkthrough; also in the campaigns)")]),
 "C12b": dict(breaks="C12 (and C11)", file="graphs.rs (add_node_internal: 'callee graph must be older' check removed)",
   needs="graph A created, graph B created and finalized afterwards, then a Call/Iterate node in A refers to B: the context evaluates but its serialization is rejected",
   detection=[("C12 (as committed when first tried: recipes always build callees first)","MISSED","69 s",""),("C11","caught","4 s","guard-missing:gdep-not-older"),("C12 (after adding the rt-order sub-check: contexts built through unusual API call orders)","caught","<1 s","order-rt-deser-err")],
   note="strengthened: c12_order.rs"),
 "C18b": dict(breaks="C18", file="mpc/mpc_radix_sort.rs (first-chunk handling)",
   needs="compiled sort of private data with an odd key width >= 3",
   detection=[("C18","caught","8 s","sort-compiled-shared-sum")]),
 "C19b": dict(breaks="C19", file="mpc/mpc_psi.rs (same_non_key_headers)",
   needs="compiled Union join, key pair with different names, first table has a payload column named like the second table's key column",
   detection=[('C19 (as committed when first tried: payload names x0/y0 never clash with a key header)', 'MISSED', '186 s', ''), ("C19 (after letting the first table's payload column carry the second table's key header name)", 'caught', '41 s', 'compiler-rejected-join (the compiled union fails with a type error where plaintext accepts; with equal column types the result differs)')],
   note='strengthened: c19_util payload naming'),
}

for sid, d in S.items():
    dir_ = f"/verif/seeded/{sid}"
    if not os.path.isdir(dir_) or not d["detection"]:
        continue
    meta = {
        "seed_id": sid,
        "breaks_property": d["breaks"],
        "changed": d["file"],
        "needs_to_manifest": d["needs"],
        "what_was_run": COMMON_RAN,
        "checks_run_against_it": [
            {"check": c, "result": r, "time_to_report": t, "signature": s} for (c, r, t, s) in d["detection"]
        ],
    }
    if "note" in d:
        meta["note"] = d["note"]
    vs = os.path.join(dir_, "verify_summary.txt")
    if os.path.exists(vs):
        meta["verification_summary"] = open(vs).read().strip().splitlines()
    json.dump(meta, open(os.path.join(dir_, "meta.json"), "w"), indent=1)
    print("wrote", sid)
