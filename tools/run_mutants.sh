#!/bin/bash
# usage: run_mutants.sh <workdir> "<mutant ids>" "<check ids>" [scale]
# <workdir> holds harness/ (Cargo.toml pointing at <workdir>/repo) and repo/ (scratch copy).
W="$1"; MUTS="$2"; CHECKS="$3"; SCALE="${4:-0.3}"
mkdir -p "$W/out"
for m in $MUTS; do
  rsync -a --exclude target --exclude .git /repo/ "$W/repo/"; touch "$W/repo/ciphercore-base/src/lib.rs"
  python3 /verif/tools/mutants.py "$W/repo" "$m" >/dev/null || { echo "$m: APPLY FAILED"; continue; }
  (cd "$W/harness" && cargo build --release --offline -j8 >"$W/out/build-$m.log" 2>&1) || { echo "$m: BUILD FAILED"; continue; }
  for c in $CHECKS; do
    t0=$(date +%s)
    out=$(cd "$W/harness" && VERIF_ROOT="$W/out" VH_THREADS=8 VH_SCALE=$SCALE ./target/release/vharness $c 2>&1)
    rc=$?
    t1=$(date +%s)
    echo "$m $c exit=$rc $((t1-t0))s $(echo "$out" | grep -m1 -A1 VIOLATION | tr '\n' ' ' | cut -c1-260)"
  done
done
rsync -a --exclude target --exclude .git /repo/ "$W/repo/"; touch "$W/repo/ciphercore-base/src/lib.rs"
