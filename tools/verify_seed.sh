#!/bin/bash
# usage: verify_seed.sh <ID> [nosuite]  -- confirms a seeded change in its scratch worktree /tmp/seed_<ID>:
# demo fails with the change, passes without it, existing suite passes with it. Copies the kept
# files to /verif/seeded/<ID>/.
ID="$1"; W=/tmp/seed_$ID; case "$ID" in *b) W=/tmp/seed2_${ID%b};; *c) W=/tmp/seed3_${ID%c};; esac
cd "$W" || exit 9
git diff -- ciphercore-base/src > out/patch.verified.diff
[ -s out/patch.verified.diff ] || { echo "$ID: no source change in worktree"; exit 9; }
cp out/demo.rs ciphercore-base/tests/demo.rs 2>/dev/null || { mkdir -p ciphercore-base/tests; cp out/demo.rs ciphercore-base/tests/demo.rs; }
cargo test -p ciphercore-base --offline --test demo -j8 > out/verify_with.log 2>&1; rc1=$?
git apply -R out/patch.verified.diff   # (not git stash: the stash is shared between worktrees)
cargo test -p ciphercore-base --offline --test demo -j8 > out/verify_without.log 2>&1; rc2=$?
git apply out/patch.verified.diff
rm -f ciphercore-base/tests/demo.rs
rc3=skipped
if [ "$2" != "nosuite" ]; then
  cargo test --workspace --no-fail-fast --offline --lib --bins --tests -j8 > out/verify_suite.log 2>&1; rc3=$?
fi
echo "$ID demo_with_change_rc=$rc1 demo_without_rc=$rc2 suite_with_change_rc=$rc3 $(grep -h 'test result' out/verify_suite.log 2>/dev/null | awk '{p+=$4; f+=$6} END {print "passed="p" failed="f}')"
mkdir -p /verif/seeded/$ID
cp out/patch.verified.diff /verif/seeded/$ID/patch.diff
cp out/demo.rs out/notes.md /verif/seeded/$ID/ 2>/dev/null
grep -h "test result" out/verify_with.log out/verify_without.log out/verify_suite.log 2>/dev/null > /verif/seeded/$ID/verify_summary.txt
rm -rf "$W/target"
