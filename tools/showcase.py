#!/usr/bin/env python3
import json,sys
r=json.load(open(sys.argv[1]))
print(r['signature'], '|', r['message'][:400])
c=r['case']
for k,v in c.items():
    if k!='recipe': print(k, json.dumps(v)[:200])
rc=c.get('recipe')
if rc:
    for i,s in enumerate(rc['subs']):
        print('sub',i,'iter',s['iter'],'ins',s['ins'],'out',s['out'])
        for st in s['steps']: print('    ',st)
    for s in rc['steps']: print(s)
    print('out',rc['out'],'vals',rc['vals'][:6],len(rc['vals']))
