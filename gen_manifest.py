#!/usr/bin/env python3
"""Regenerates MANIFEST.json from the table below (keeps it valid at all times)."""
import json, sys
props = [json.loads(l) for l in open('/verif/properties.jsonl')]
ids = [p['id'] for p in props]

# id -> (technique, level text, level note, engine)
CLAIMED = {
 "C01": ("proptest-generated graph recipes; differential oracle plaintext evaluator vs evaluator on compile_context output; shrinking to minimal recipe",
         "Random search with shrinking over graph recipes (2-22 steps over all MPC-compilable operation families incl. Call/Iterate sub-graphs and library custom ops) x owner vectors in {0,1,2,public,shared}^n x output-party lists (ordered, possibly empty) x 3 inline modes x 2 evaluator seeds. Differential oracle: SimpleEvaluator on the instantiated source graph vs SimpleEvaluator on the compiled main graph on the same inputs (additive shares built and summed by the harness for shared inputs/outputs). Sampling, not proof.",
         "Trusted: plaintext SimpleEvaluator as reference for the source graph (checked separately by C09/C10), harness share arithmetic (hv.rs). Truncate on private data and joins are covered by C05/C19, not here. One known finding (additively shared private permutation) is excluded by construction and pinned."),
 "C02": ("proptest-generated recipes executed by a three-party executor model (per-party values, values cross only at Send nodes); oracle = plaintext value at every listed output party / share consistency",
         "Random search with shrinking over the same recipes/configurations as C01, executed by three separate simulated parties: own inputs + generated junk for everything not owned, three independent random tapes, values replaced only at Send(s,r) nodes. Oracle: each listed output party holds exactly the plaintext value; for a shared output the replicated slots agree between neighbours and reconstruct the value; repeated with different junk and tapes.",
         "Trusted: the execution model of reference/runtime.md as implemented in walk.rs::run3 (the proprietary runtime is unavailable); plaintext SimpleEvaluator as reference."),
 "C03": ("three-party executor with idealised random oracle; exhaustive enumeration of all relevant oracle assignments for generated bit-typed graphs (exact view histograms), sampled two-sample chi-square tests for 8-bit graphs",
         "Generated bit-typed source graphs x owner/output configurations x each observer: every random-oracle assignment that can influence the observer's messages or output is enumerated for every input assignment, and the exact histogram of the observer's view (messages received, output, own relevant mask values) must be identical across all other-party inputs of a group (same observer inputs and output) - an exact decision for that graph/configuration/observer under the idealisation the property prescribes. For 8-bit arithmetic sources (OT, conversions, truncation, permutation, sort) the comparison is statistical (byte marginals, pairwise byte differences/xors, view hash; per-test p<1e-18) plus an exact unmasked-byte check.",
         "Trusted: idealisation of PRF/PRNG (keys opaque, masks independent uniform); syntactic taint over-approximates dependence, so requests outside the taint set factor out exactly; execution model of runtime.md. Wider scalar types and big graphs are sampled only."),
 "C04": ("proptest-generated recipes; structural invariants over compiler output and over the optimiser's old-to-new node mapping (no evaluation)",
         "Random search with shrinking. (i/iii) MPC recipes compiled stage by stage (prepare_context, prepare_for_mpc_evaluation, optimize_context) in all inline modes: PRF counters are pairwise distinct and non-zero before and after the final optimiser; (ii) generated inlined graphs containing Random/RandomPermutation/PRF/PermutationFromPRF nodes with colliding counters, duplicated nodes, constants and dangling parts: under optimize_context's mapping no randomising/PRF node becomes a Constant, two are never merged, none is duplicated or invented, each surviving user still depends on the image of its randomising dependency (a node is dropped only when no surviving node depends on it).",
         "Trusted: the mapping returned by optimize_context is what the pass actually did (its value-consistency is C06's subject). PRF nodes keyed by a Constant are outside the domain."),
 "C15": ("proptest-generated PRF/PRNG call schedules across evaluator instances; exact twin-generator differential for bounded draws; chi-square uniformity tests",
         "Random search with shrinking over PRF / PermutationFromPRF graphs with harness-chosen keys (equal, one-bit-flipped), counters, output types crossing every buffer boundary, evaluated node-by-node in several evaluator instances, orders, repeats and interleavings: purity, separation, validity (check_type, no stray bits, true permutations), seed replay; bounded draws compared exactly (values and bytes consumed) with a reference rejection sampler on a twin PRNG for all small moduli and boundary moduli; chi-square uniformity for bounded draws and permutations (false-alarm < e^-36 per test).",
         "Trusted: AES as PRF core (cryptographic quality assumed); reference rejection sampler in the harness. Modulo bias below 2^-8 relative inside PermutationFromPRF is statistically out of reach."),
 "C05": ("proptest-generated one-op Truncate graphs compiled and evaluated under several random tapes (global evaluator and three-party executor); exact integer oracle with the documented error band; boundary grid over all (type,k)",
         "Random search with shrinking plus a deterministic grid over every (scalar type, k) pair: inputs from the documented range with boundaries forced in, owners party/shared/public, all output lists, 3 inline modes, 3 global tapes and 2 three-party rounds per case. Oracle in exact integer arithmetic: 2^k protocol gives floor or floor+1; general signed protocol gives the toward-zero quotient +-1 or the documented wrap-around (recognised by its signature and counted); public input is exact.",
         "Trusted: harness i128 arithmetic; the documented input range and wrap event as stated in mpc_truncate.rs. The probability of the wrap is not bounded; faults confined to specific tapes of wide types are out of reach."),
 "C07": ("proptest-generated contexts with nested Call/Iterate and constructive annotated iterate bodies; differential oracle native Call/Iterate evaluation vs evaluation of the inlined context; full length sweep 0..40",
         "Random search with shrinking over contexts of 2-6 graphs (general, empty-state, associative incl. non-commutative, one-bit-state, small-state K=1..4 bodies satisfying their contracts by construction; wrappers, Iterate inside Call/Iterate; lengths 0..40 with the algorithm switch points forced) x default mode x call/iterate overrides, plus a complete sweep of every annotated operation x every length 0..40 x 3 modes. Oracle: SimpleEvaluator's native Call/Iterate vs evaluation of inline_operations output; for random bodies freshness relations between inlined copies.",
         "Trusted: reference semantics of Call/Iterate in evaluators.rs; associativity of generated bodies is re-checked on the generated values (failure = generator bug, exit 2). 128-bit types and custom ops inside bodies are not generated."),
 "C08": ("exhaustive pairs of library custom-operation parameterisations + proptest-generated mixed contexts; oracle = per-node single-operation instantiation",
         "Every unordered pair from a catalogue of 67 parameterised library custom operations on equal argument types (exhaustive), and generated contexts of 1-3 graphs mixing all library custom ops with nesting through harness-defined wrapper ops: run_instantiation_pass must succeed whenever every custom_op call type-checked, must leave no Custom node, and every node must equal the per-node definition (the same operation instantiated alone on the same argument types).",
         "Trusted: a custom operation instantiated alone in a one-node context defines its function (approximate ops are compared with themselves). Five name-collision defects found here were repaired (fix: commit bacbce4)."),
 "C09": ("proptest-generated graphs over all primitive operations with fitting and near-miss parameters; oracles: no panic, check_type + strict decode of every node value, independent shape-rule model, must-reject table, runtime-error white-list",
         "Random search with shrinking over graphs of all primitive operations (55 step kinds incl. Gather, CuckooHash, SegmentCumSum, Shard*, Join*, Print/Assert, randomness, Call/Iterate sub-graphs) with parameters from the fitting range and just outside it, plus huge-dimension builder-only cases. Every builder call returns Ok/Err without panicking; documented misfits must be rejected at add_node; the inferred type equals an independent NumPy-style model of the documented shape rules; a node-by-node walker and the stock evaluator both run: every node value satisfies check_type and the strict harness decoder; evaluation ends in Ok or a white-listed data-dependent runtime error, never a panic or a type-related error.",
         "Trusted: the harness shape-rule model and must-reject table (written from the docs); the runtime-error white-list. Shard operations being unevaluable is a recorded known finding; seven panics/late rejections found here were repaired (fix: commits 88c9908..f5250a4)."),
 "C10": ("proptest-generated one-operation graphs vs an independent reference interpreter (refsem.rs) written from the documentation",
         "Random search with shrinking over one-operation graphs: every primitive operation named by the property x all 11 scalar types x shapes up to rank 4 with size-1 broadcasting x all parameters x extreme values; inferred type and every element compared with refsem (nested-loop NumPy-style modular semantics written from the Graph doc comments). 386 (operation, scalar type) cells, each with >1000 cases in the quick tier.",
         "Trusted: the reference interpreter; three conventions absent from the docs are stated as assumptions (signed Truncate rounds toward zero, A2B bit 0 is least significant, ApplyPermutation(a,p)[i]=a[p[i]]). The 128-bit truncation defect of structural ops was repaired (fix: commit 541780f)."),
 "C14": ("proptest-generated typed values and PRNG seeds; reconstruction/layout oracles via the harness's own modular adder; metamorphic junk-independence; chi-square uniformity on small types",
         "Random search with shrinking over all type shapes x values x seeds for secret_share / get_local_shares_for_each_party / ReplicatedShares / share_vector: shares reconstruct (independent type-recursive adder), party i holds exactly shares i and i+1 consistently with its neighbours, any two parties reconstruct, the third slot is unrelated junk that does not change with the secret, each share shifts with the secret identically under different seeds; chi-square tests of each party's held pair for 1-2 bit types over 20000 seeds (run-level false alarm < 1e-10).",
         "Trusted: hv.rs arithmetic and codec; AES-based PRNG quality. Uniformity is tested statistically only on 1-2 bit types/projections."),
 "C16": ("exhaustive operand pairs for small widths, deterministic boundary sweep for every width 1..128, proptest pairs with broadcasting; oracle = native integer comparison",
         "All 4^w operand pairs for w<=6 (quick) / 8-9 (thorough) in four broadcast layouts; a boundary sweep (equal, single-bit differences at every position, carry chains, sign boundary, boundary cross product) for every width 1..128; generated batches with rank 0-3 broadcasting for widths 1..128: six comparisons + Min/Max, signed and unsigned, compared element-wise with native u128/i128 comparison and NumPy broadcasting done by the harness.",
         "Trusted: harness broadcasting walk and integer decoding (bit 0 least significant). Evaluation through SimpleEvaluator after instantiation only."),
 "C18": ("proptest-generated tables/permutations vs an independent stable-sort reference; exhaustive permutations n<=5; compiled sort vs reference under global and three-party execution",
         "Random search with shrinking: Sort on tables (1-12 rows, key widths 1-10 incl. odd widths, duplicate keys, 0-3 payload columns of any type/rank) vs the harness's own stable sort applied to every column; SortByIntegerKey for all 11 key types (row multiset preserved, key non-decreasing numerically); all permutations n<=5 and random n<=12: apply then inverse restores the array and the two are gather/scatter; compiled Sort/ApplyPermutation(public permutation)/integer-key sort vs the reference with the global evaluator (2 seeds) and the three-party executor.",
         "Trusted: the harness reference sort/gather; execution model of runtime.md. Private additively-shared permutation operands are excluded (known finding F-C01-1)."),
 "C06": ("proptest-generated inlined contexts given to optimize_context; differential evaluation with a tape evaluator (random draws replayed by node identity) + mapping/interface/type/reload invariants",
         "Random search with shrinking over fully inlined contexts of 1-3 graphs rich in what the four passes rewrite (constants and foldable expressions incl. 128-bit, tuple/named tuple/vector/zip constructors followed by getters, A2B/B2A chains with equal and unequal types, duplicated nodes, dangling nodes, unused inputs, names, Private and Send annotations, Random/PRF nodes). Oracle per graph and 3 input vectors: output value equal under tape_eval; every mapped node has the value and type of its image; Input sequence (type, name, order) unchanged; live Send markers kept on nodes with the same value and none invented; every recorded type equals the re-inferred one; the result reloads (serde) deep-equal and evaluates identically.",
         "Trusted: SimpleEvaluator per node; tape_eval's definition of 'same random draws' (fresh evaluator seeded from the node's pre-image identity). Names of replaced nodes are not compared (documented as not preserved)."),
 "C11": ("model-based stateful testing: proptest-generated API-call histories interpreted against the real context and a harness model; invariants after every call; failed-call removal oracle; run under two builds",
         "Histories of 3-80 public API calls over 1-2 contexts (graphs, nodes of any operation with valid and invalid arguments incl. foreign/unfinalized/younger graphs and over-limit types, names, annotations, outputs, finalization, main graph, call/iterate, mutators after finalization). After every call: well-formedness through getters (wf.rs), getter dump + decoded serialized form equal to the harness model, byte-identical serialized text and getter dump after any Err, no panic, documented guards hold; removal oracle: the history re-run without its failed calls gives the same results and final state. Run with the normal build and with ciphercore-base's own `fuzzing` feature (small size limits) so the size-limit rollback paths are reached.",
         "Trusted: the harness model's predictions of documented failures and of result types for ~20 operation kinds (for the rest either outcome is accepted but an Err must leave no trace). Serialized text is compared within one process only."),
 "C17": ("exhaustive operand grids for small widths + proptest-generated operands with broadcasting; oracle = exact u128 integer arithmetic",
         "BinaryAdd: all operand pairs for w<=8 with and without overflow bit, corner products up to 128 bits, random with broadcasting; Mux: bit and all integer scalar types with three-way broadcasting; Clip2K: all inputs for w<=10 x every k, corners up to 128 bits; LongDivision: all pairs for widths (2,4,8)^2 signed/unsigned, corner grids for widths 2..128, random: floored quotient/remainder, q*d+r=dividend mod 2^w, remainder sign, |r|<|d|.",
         "Trusted: harness integer arithmetic, broadcasting and decoding. Two defects found here were repaired (fix: commits 48986db Mux, f42a5fe LongDivision); rejection of rank-1 LongDivision operands is a recorded known finding."),
 "C13": ("proptest generated integers/values vs reference byte encoder and structural layout predicate; JSON round-trip oracle",
         "Random search with shrinking over (scalar type x source integer type x boundary-heavy integers x ragged bit arrays x nested container types): read-back == integers mod 2^w with sign extension, bytes == the harness's own little-endian/LSB-first encoder, check_type <=> independent layout predicate (matching and near-miss layouts), JSON text parses back to an equal typed value. Sampling, not proof.",
         "Trusted: the harness's reference encoder/decoder (hv.rs) and layout predicate; serde_json itself. Two JSON format limitations are recorded as known findings and excluded by signature."),
}
CLAIMED_EXTRA = {"C20": ("exhaustive / dense grids over the documented fixed-point domains evaluated as arrays + proptest sweeps; oracle = f64 evaluation of the exact function with tolerances taken from the repository's own claims; compiled vs plaintext up to truncation error",
         "Exhaustive grids (Newton inversion caps 8-16, inverse sqrt caps 4-8, Goldschmidt all pairs at cap 8, Taylor exponent all inputs at p=10, PWL exponent/sigmoid/GeLU at precision 8-10 for 4/5/6 log-buckets, tails at p=15, FixedMultiply grids) and generated sweeps; every point compared with the real function within the tolerance the repository's tests/comments claim (never fitted to measured output); compiled versions vs plaintext within the accumulated truncation error on coarser grids.",
         "Trusted: f64 reference; tolerances as claimed by the repository. Three defects found here were repaired (fix: commits f3d603b, ab78b38, b23f816); five accuracy/documentation discrepancies are recorded known findings."),
"C19": ("proptest-generated table pairs vs an independent reference join written from the documentation; compiled join vs plaintext (global evaluator) and three-party execution",
         "Random search with shrinking plus a fixed grid: pairs of tables (null rows anywhere, 1-3 key columns of differing types/shapes, renamed key headers, payload columns, overlap patterns, masked variant with masked key entries) x 4 join types: result type (column order, row count), null column, masks, data and zero filling equal to refjoin; compiled join equals plaintext under 2 seeds (documented cuckoo abort tolerated and counted); three-party execution gives every listed party the plaintext table / consistent shares.",
         "Trusted: refjoin (harness reading of the Graph::join docs); execution model of runtime.md. Six defects found here were repaired (fix: commits c5d7fe6, f2e4c09, 316a69d, 7e82556, 810c9d0, 581807a).")}
NOT_YET = "check not implemented yet in this round (planned in DESIGN.md section 3)"

CLAIMED.update(CLAIMED_EXTRA)
checks = []
for i in ids:
    if i in CLAIMED:
        tech, text, note = CLAIMED[i]
        small = i == "C11"
        checks.append({
            "property_id": i,
            "quick_cmd": f"./check.sh {i} quick",
            "thorough_cmd": f"./check.sh {i} thorough",
            "evidence_file": f"/verif/evidence/{i}.json",
            "replay_cmd_template": "./harness/target/release/vharness replay {path}",
            "engine": "vharness",
            "level_claimed": {"category": "exploration", "text": text, "design_ref": f"DESIGN.md section 3, {i}"},
            "level_note": note,
            "technique": tech,
        })
na = [{"property_id": i, "reason": NOT_YET} for i in ids if i not in CLAIMED]
m = {
 "version": 1,
 "setup_cmd": "cd /verif/harness && CARGO_NET_OFFLINE=true cargo build --release --offline && CARGO_NET_OFFLINE=true cargo build --release --offline --features small --target-dir target-small",
 "hooks": {
   "guard": "--cfg ciphercore_verif",
   "enable": "none needed: the harness links /repo/ciphercore-base as a path dependency and uses its public API only; no hook commits exist",
   "baseline_off_cmd": "cd /repo && cargo test --workspace --no-fail-fast --offline",
   "source_commits": [],
   "add_only": True,
 },
 "engines": [
   {"name": "vharness", "path": "/verif/harness", "serves_properties": sorted(CLAIMED.keys()),
    "kind_free_text": "Rust binary, one sub-command per property; proptest TestRunner per worker thread with seeds derived from VERIF_SEED, shrinking to a minimal JSON replay file; exhaustive enumerators for small sub-spaces"},
 ],
 "checks": checks,
 "not_applicable": na,
 "notes": "Technique family: property-based testing and fuzzing. Every check rebuilds the harness against /repo's working tree (path dependency) before running. Known findings: /verif/known_findings.jsonl.",
}
json.dump(m, open('/verif/MANIFEST.json', 'w'), indent=1)
print("claimed", sorted(CLAIMED.keys()), "not yet", [x['property_id'] for x in na])
