#!/usr/bin/env python3
"""Regenerates MANIFEST.json from the table below (keeps it valid at all times)."""
import json, sys
props = [json.loads(l) for l in open('/verif/properties.jsonl')]
ids = [p['id'] for p in props]

# id -> (technique, level text, level note, engine)
CLAIMED = {
 "C01": ("proptest-generated graph recipes; differential oracle plaintext evaluator vs evaluator on compile_context output; shrinking to minimal recipe",
         "Random search with shrinking over graph recipes (2-22 steps over all MPC-compilable operation families incl. Call/Iterate sub-graphs and library custom ops) x owner vectors in {0,1,2,public,shared}^n x output-party lists (ordered, possibly empty) x 3 inline modes x 2 evaluator seeds. Differential oracle: SimpleEvaluator on the instantiated source graph vs SimpleEvaluator on the compiled main graph on the same inputs (additive shares built and summed by the harness for shared inputs/outputs). Sampling, not proof.",
         "Trusted: plaintext SimpleEvaluator as reference for the source graph (checked separately by C09/C10), harness share arithmetic (hv.rs). Truncate on private data and joins are covered by C05/C19, not here. One known finding (additively shared private permutation) is excluded by construction and pinned."),
 "C02": ("proptest-generated recipes executed by a three-party executor model (per-party values, values cross only at Send nodes); oracle = plaintext value at every listed output party / share consistency",
         "Random search with shrinking over the same recipes/configurations as C01, executed by three separate simulated parties: own inputs + generated junk for everything not owned, three independent random tapes, values replaced only at Send(s,r) nodes. Oracle: each listed output party holds exactly the plaintext value; for a shared output the replicated slots agree between neighbours and reconstruct the value; repeated with different junk and tapes.",
         "Trusted: the execution model of reference/runtime.md as implemented in walk.rs::run3 (the proprietary runtime is unavailable); plaintext SimpleEvaluator as reference."),
 "C03": ("three-party executor with idealised random oracle; exhaustive enumeration of all relevant oracle assignments for generated bit-typed graphs (exact view histograms), sampled two-sample chi-square tests for 8-bit graphs",
         "Generated bit-typed source graphs x owner/output configurations x each observer: every random-oracle assignment that can influence the observer's messages or output is enumerated for every input assignment, and the exact histogram of the observer's view (messages received, output, own relevant mask values) must be identical across all other-party inputs of a group (same observer inputs and output) - an exact decision for that graph/configuration/observer under the idealisation the property prescribes. For 8-bit arithmetic sources (OT, conversions, truncation, permutation, sort) the comparison is statistical (byte marginals, pairwise byte differences/xors, view hash; per-test p<1e-18) plus an exact unmasked-byte check.",
         "Trusted: idealisation of PRF/PRNG (keys opaque, masks independent uniform); syntactic taint over-approximates dependence, so requests outside the taint set factor out exactly; execution model of runtime.md. Wider scalar types and big graphs are sampled only."),
 "C04": ("proptest-generated recipes; structural invariants over compiler output and over the optimiser's old-to-new node mapping (no evaluation)",
         "Random search with shrinking. (i/iii) MPC recipes compiled stage by stage (prepare_context, prepare_for_mpc_evaluation, optimize_context) in all inline modes: PRF counters are pairwise distinct and non-zero before and after the final optimiser; (ii) generated inlined graphs containing Random/RandomPermutation/PRF/PermutationFromPRF nodes with colliding counters, duplicated nodes, constants and dangling parts: under optimize_context's mapping no randomising/PRF node becomes a Constant, two are never merged, none is duplicated or invented, each surviving user still depends on the image of its randomising dependency (a node is dropped only when no surviving node depends on it).",
         "Trusted: the mapping returned by optimize_context is what the pass actually did (its value-consistency is C06's subject). PRF nodes keyed by a Constant are outside the domain."),
 "C15": ("proptest-generated PRF/PRNG call schedules across evaluator instances; exact twin-generator differential for bounded draws; chi-square uniformity tests",
         "Random search with shrinking over PRF / PermutationFromPRF graphs with harness-chosen keys (equal, one-bit-flipped), counters, output types crossing every buffer boundary, evaluated node-by-node in several evaluator instances, orders, repeats and interleavings: purity, separation, validity (check_type, no stray bits, true permutations), seed replay; bounded draws compared exactly (values and bytes consumed) with a reference rejection sampler on a twin PRNG for all small moduli and boundary moduli; chi-square uniformity for bounded draws and permutations (false-alarm < e^-36 per test).",
         "Trusted: AES as PRF core (cryptographic quality assumed); reference rejection sampler in the harness. Modulo bias below 2^-8 relative inside PermutationFromPRF is statistically out of reach."),
 "C13": ("proptest generated integers/values vs reference byte encoder and structural layout predicate; JSON round-trip oracle",
         "Random search with shrinking over (scalar type x source integer type x boundary-heavy integers x ragged bit arrays x nested container types): read-back == integers mod 2^w with sign extension, bytes == the harness's own little-endian/LSB-first encoder, check_type <=> independent layout predicate (matching and near-miss layouts), JSON text parses back to an equal typed value. Sampling, not proof.",
         "Trusted: the harness's reference encoder/decoder (hv.rs) and layout predicate; serde_json itself. Two JSON format limitations are recorded as known findings and excluded by signature."),
}
NOT_YET = "check not implemented yet in this round (planned in DESIGN.md section 3)"

checks = []
for i in ids:
    if i in CLAIMED:
        tech, text, note = CLAIMED[i]
        small = i == "C11"
        checks.append({
            "property_id": i,
            "quick_cmd": f"./check.sh {i} quick",
            "thorough_cmd": f"./check.sh {i} thorough",
            "evidence_file": f"/verif/evidence/{i}.json",
            "replay_cmd_template": "./harness/target/release/vharness replay {path}",
            "engine": "vharness",
            "level_claimed": {"category": "exploration", "text": text, "design_ref": f"DESIGN.md section 3, {i}"},
            "level_note": note,
            "technique": tech,
        })
na = [{"property_id": i, "reason": NOT_YET} for i in ids if i not in CLAIMED]
m = {
 "version": 1,
 "setup_cmd": "cd /verif/harness && CARGO_NET_OFFLINE=true cargo build --release --offline",
 "hooks": {
   "guard": "--cfg ciphercore_verif",
   "enable": "none needed: the harness links /repo/ciphercore-base as a path dependency and uses its public API only; no hook commits exist",
   "baseline_off_cmd": "cd /repo && cargo test --workspace --no-fail-fast --offline",
   "source_commits": [],
   "add_only": True,
 },
 "engines": [
   {"name": "vharness", "path": "/verif/harness", "serves_properties": sorted(CLAIMED.keys()),
    "kind_free_text": "Rust binary, one sub-command per property; proptest TestRunner per worker thread with seeds derived from VERIF_SEED, shrinking to a minimal JSON replay file; exhaustive enumerators for small sub-spaces"},
 ],
 "checks": checks,
 "not_applicable": na,
 "notes": "Technique family: property-based testing and fuzzing. Every check rebuilds the harness against /repo's working tree (path dependency) before running. Known findings: /verif/known_findings.jsonl.",
}
json.dump(m, open('/verif/MANIFEST.json', 'w'), indent=1)
print("claimed", sorted(CLAIMED.keys()), "not yet", [x['property_id'] for x in na])
