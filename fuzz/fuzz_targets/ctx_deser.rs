#![no_main]
//! C12 (thorough tier): arbitrary bytes as the text of a serialized context. Same oracle as the
//! proptest mutation tier (vh::c12::oracle_text): Err, or a well-formed re-serializable context;
//! a panic is a violation unless it carries the signature of an OPEN known finding.
use libfuzzer_sys::fuzz_target;
use std::sync::OnceLock;
use vh::c12::{oracle_text, TextCase};

fn open_signatures() -> &'static Vec<String> {
    static S: OnceLock<Vec<String>> = OnceLock::new();
    S.get_or_init(|| {
        let root = std::env::var("VERIF_ROOT").unwrap_or_else(|_| "/verif".to_string());
        let mut v = vec![];
        if let Ok(text) = std::fs::read_to_string(format!("{}/known_findings.jsonl", root)) {
            for line in text.lines() {
                if let Ok(j) = serde_json::from_str::<serde_json::Value>(line) {
                    if j["property"] == "C12" && j["status"] == "open" {
                        v.push(j["signature"].as_str().unwrap_or("").to_string());
                    }
                }
            }
        }
        vh::util::install_panic_hook();
        v
    })
}

fuzz_target!(|data: &[u8]| {
    let known = open_signatures();
    let text = String::from_utf8_lossy(data).to_string();
    // cost guard (same as the proptest mutator): dimension-like numbers stay small, otherwise
    // type inference of some custom operations spins for minutes (not a crash, not judged)
    let mut run = 0usize;
    for b in text.bytes() {
        if b.is_ascii_digit() {
            run += 1;
            if run > 4 {
                return;
            }
        } else {
            run = 0;
        }
    }
    let case = TextCase { text };
    let out = oracle_text(&case);
    if out.is_fail() && !known.iter().any(|k| *k == out.sig) {
        eprintln!("VIOLATION-CASE mut-shape {}", serde_json::to_string(&case).unwrap());
        eprintln!("VIOLATION-SIGNATURE {}", out.sig);
        eprintln!("VIOLATION-MESSAGE {}", out.msg.chars().take(500).collect::<String>());
        std::process::abort();
    }
});
