#![no_main]
//! C13 (thorough tier): bytes -> (type, value) through arbitrary::Unstructured -> the same JSON
//! round-trip oracle as the proptest tier. Known findings are tolerated in-target by signature.
use arbitrary::Unstructured;
use libfuzzer_sys::fuzz_target;
use vh::c13::{oracle_json, JsonCase};
use vh::hv::HVal;
use ciphercore_base::data_types::{array_type, named_tuple_type, scalar_type, tuple_type, vector_type, Type};

fn arb_type(u: &mut Unstructured, depth: u32) -> arbitrary::Result<Type> {
    let st = vh::hv::ALL_ST[u.int_in_range(0..=10usize)?];
    let k = if depth == 0 { 0 } else { u.int_in_range(0..=5u8)? };
    Ok(match k {
        0 | 1 => {
            if u.ratio(1, 5)? {
                scalar_type(st)
            } else {
                let rank = u.int_in_range(1..=3usize)?;
                let mut sh = vec![];
                for _ in 0..rank {
                    sh.push(u.int_in_range(1..=4u64)?);
                }
                array_type(sh, st)
            }
        }
        2 => {
            let n = u.int_in_range(0..=3usize)?;
            let mut ts = vec![];
            for _ in 0..n {
                ts.push(arb_type(u, depth - 1)?);
            }
            tuple_type(ts)
        }
        3 => {
            let n = u.int_in_range(1..=3usize)?;
            let names = ["a", "b", "c"];
            let mut ts = vec![];
            for i in 0..n {
                ts.push((names[i].to_string(), arb_type(u, depth - 1)?));
            }
            named_tuple_type(ts)
        }
        _ => vector_type(u.int_in_range(1..=4u64)?, arb_type(u, depth - 1)?),
    })
}

fn arb_val(u: &mut Unstructured, t: &Type) -> arbitrary::Result<HVal> {
    if vh::hv::is_leaf(t) {
        let st = vh::hv::leaf_st(t);
        let m = vh::hv::mask(st);
        let mut xs = vec![];
        for _ in 0..vh::hv::type_elems(t) {
            let raw: u128 = u.arbitrary()?;
            let x = match u.int_in_range(0..=5u8)? {
                0 => 0,
                1 => m,
                2 => (raw % 300).wrapping_neg() & m,
                3 => (raw % 300) & m,
                _ => raw & m,
            };
            xs.push(x);
        }
        Ok(HVal::A(xs))
    } else {
        let mut cs = vec![];
        for ct in vh::hv::children_types(t) {
            cs.push(arb_val(u, &ct)?);
        }
        Ok(HVal::V(cs))
    }
}

fuzz_target!(|data: &[u8]| {
    let mut u = Unstructured::new(data);
    let t = match arb_type(&mut u, 3) {
        Ok(t) => t,
        Err(_) => return,
    };
    let v = match arb_val(&mut u, &t) {
        Ok(v) => v,
        Err(_) => return,
    };
    let case = JsonCase { t, v };
    let out = oracle_json(&case);
    if out.is_fail() && !out.sig.ends_with("-empty-vector") && !out.sig.ends_with("-empty-named-tuple") {
        eprintln!("VIOLATION-CASE json {}", serde_json::to_string(&case).unwrap());
        panic!("C13 violation: {} {}", out.sig, out.msg);
    }
});
